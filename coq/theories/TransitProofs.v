(* TransitProofs.v — what a shortest path between units can cross.  In every built and compiled network whose links
   join routers and interfaces (Side.links_typedb), a simple path from a router to an interface runs through routers
   only, and a simple path that starts at an interface starts with the router that interface injects into: an
   interface has one link each way (compile_single_attach) and one endpoint behind it, an endpoint node has its
   interface as only neighbour (the protocol edges of a built graph, in closed form).  Hence the two hypotheses
   "transit" (ID) and "first hop" (SRC) of the hardware-level theorems are theorems themselves. *)
From FV Require Import Base AddrRange RouteMap Graph Desc Build Netlist Compile Routing Emit Hw Side Check CheckProofs
     ModelBase BuildProofs ModelProofs IdProofs Paths PathProofs ConnProofs HwProofs WireProofs NxProofs TreeProofs FrameProofs.

(* ------------------------------------------------------------------ the protocol edges of a built graph *)
Definition ep_prots (e : ep_desc) : list edge :=
  (if ep_is_sbr e then map (fun o => prot_edge (ep_nm (ep_name e +++ "_ni") o) (ep_nm (ep_name e) o)) (arr_opts e) else []) ++
  (if ep_is_mgr e then map (fun o => prot_edge (ep_nm (ep_name e) o) (ep_nm (ep_name e +++ "_ni") o)) (arr_opts e) else []).

Lemma prot_fold_edges (f : list Z -> edge) idxs : forall g g',
  foldM (fun g i => add_edge g (f i)) idxs g = Ok g' -> g_edges g' = g_edges g ++ map f idxs.
Proof.
  induction idxs as [|i l IH]; intros g g' H; cbn [foldM] in H; [inversion H; subst; cbn; rewrite app_nil_r; reflexivity|].
  inv_bind H. apply add_edge_spec in E. destruct E as (-> & _). rewrite (IH _ _ H). cbn [g_edges map].
  rewrite <- app_assoc. reflexivity.
Qed.

Lemma endpoint_edges g e g' : create_endpoint g e = Ok g' -> g_edges g' = g_edges g ++ ep_prots e.
Proof.
  unfold create_endpoint, ep_prots, arr_opts. cbv zeta. destruct (ep_array e) as [arr|]; intros H; inv_bind H.
  - apply array_nodes in E. apply array_nodes in E0. destruct E as (_ & E). destruct E0 as (_ & E0).
    assert (L1 : g_edges a1 = g_edges a0 ++
                 (if ep_is_sbr e then map (fun i => prot_edge (full_name (ep_name e +++ "_ni") i) (full_name (ep_name e) i)) (ep_indices arr) else [])).
    { destruct (ep_is_sbr e); [|inversion E1; subst; rewrite app_nil_r; reflexivity].
      apply (prot_fold_edges (fun i => prot_edge (full_name (ep_name e +++ "_ni") i) (full_name (ep_name e) i))) in E1. exact E1. }
    assert (L2 : g_edges g' = g_edges a1 ++
                 (if ep_is_mgr e then map (fun i => prot_edge (full_name (ep_name e) i) (full_name (ep_name e +++ "_ni") i)) (ep_indices arr) else [])).
    { destruct (ep_is_mgr e); [|inversion H; subst; rewrite app_nil_r; reflexivity].
      apply (prot_fold_edges (fun i => prot_edge (full_name (ep_name e) i) (full_name (ep_name e +++ "_ni") i))) in H. exact H. }
    rewrite L2, L1, E0, E, <- app_assoc, !map_map. reflexivity.
  - unfold add_node in E, E0. destruct (has_node g _); [discriminate|]. inversion E; subst a; clear E.
    cbn in E0. destruct (has_node _ _); [discriminate|]. inversion E0; subst a0; clear E0.
    assert (L1 : g_edges a1 = g_edges g ++ (if ep_is_sbr e then [prot_edge (ep_name e +++ "_ni") (ep_name e)] else [])).
    { destruct (ep_is_sbr e); [|inversion E1; subst; cbn; rewrite app_nil_r; reflexivity].
      apply add_edge_spec in E1. destruct E1 as (-> & _). reflexivity. }
    assert (L2 : g_edges g' = g_edges a1 ++ (if ep_is_mgr e then [prot_edge (ep_name e) (ep_name e +++ "_ni")] else [])).
    { destruct (ep_is_mgr e); [|inversion H; subst; rewrite app_nil_r; reflexivity].
      apply add_edge_spec in H. destruct H as (-> & _). reflexivity. }
    rewrite L2, L1, <- app_assoc. cbn [map ep_nm]. destruct (ep_is_sbr e), (ep_is_mgr e); reflexivity.
Qed.

Lemma filter_len_le {A} (f : A -> bool) l : (length (filter f l) <= length l)%nat.
Proof. induction l as [|a l IH]; cbn; [lia|]. destruct (f a); cbn; lia. Qed.

Lemma filter_all_in {A} (f : A -> bool) l : filter f l = l -> forall x, In x l -> f x = true.
Proof.
  induction l as [|a l IH]; cbn; intros H x Hx; [destruct Hx|].
  destruct (f a) eqn:E.
  - inversion H as [H']. destruct Hx as [<-|Hx]; [exact E|]. apply IH; [exact H'|exact Hx].
  - exfalso. assert (Hl : (length (filter f l) <= length l)%nat) by apply filter_len_le.
    rewrite H in Hl. cbn in Hl. lia.
Qed.

Lemma link_not_prot e : is_link e = true -> is_prot e = false.
Proof. unfold is_link, is_prot. destruct (e_type e); cbn; congruence. Qed.

(* every protocol edge of a built graph is one of an endpoint descriptor *)
Theorem build_prot_edges d g : build d = Ok g ->
  forall e, In e (g_edges g) -> is_prot e = true -> exists ed, In ed (d_eps d) /\ In e (ep_prots ed).
Proof.
  unfold build. intros H. inv_bind H.
  set (P := fun g0 : graph => forall e, In e (g_edges g0) -> is_prot e = true -> exists ed, In ed (d_eps d) /\ In e (ep_prots ed)).
  assert (P0 : P g_empty) by (intros e []).
  assert (P1 : P a).
  { revert P0 E. generalize g_empty. generalize (d_rts d). induction l as [|r l IH]; intros g0 Hg0 Hf; cbn [foldM] in Hf; [inversion Hf; subst; exact Hg0|].
    inv_bind Hf. apply (IH a1); [|exact Hf]. apply router_edges in E. intros e He Hp. rewrite E in He. apply in_app_iff in He.
    destruct He as [He|He]; [exact (Hg0 e He Hp)|]. rewrite (link_not_prot e (filter_all_in _ _ (router_links_are_links r) e He)) in Hp. discriminate. }
  assert (P2 : P a0).
  { apply (foldM_inv_in P create_endpoint (d_eps d)) with (s := a); [|exact P1|exact E0].
    intros s x s' Hx Hs Hf e He Hp. apply endpoint_edges in Hf. rewrite Hf in He. apply in_app_iff in He.
    destruct He as [He|He]; [exact (Hs e He Hp)|]. exists x. split; assumption. }
  apply (foldM_inv_in P (create_connection d) (d_conns d)) with (s := a0); [|exact P2|exact H].
  intros s x s' Hx Hs Hf e He Hp.
  destruct (connection_edges d s x s' Hf) as (srcs & dsts & srcs' & dsts' & pairs & _ & _ & _ & _ & _ & Hedges & _).
  rewrite Hedges in He. apply in_app_iff in He. destruct He as [He|He]; [exact (Hs e He Hp)|].
  rewrite (link_not_prot e (filter_all_in _ _ (conn_links_are_links _ _ pairs) e He)) in Hp. discriminate.
Qed.

Lemma last_default {A} (a : A) l d d' : last (a :: l) d = last (a :: l) d'.
Proof. revert a. induction l as [|b l IH]; intros a; [reflexivity|]. cbn [last]. apply (IH b). Qed.

(* ------------------------------------------------------------------ node kinds by name *)
Section Transit.
  Variables (d : desc) (g : graph) (c : compiled).
  Hypothesis Hb : build d = Ok g.
  Hypothesis Hc : compile d g = Ok c.
  Hypothesis HL : links_typed g c.

  Definition typ (u : string) (t : ntype) : Prop := exists n, In n (g_nodes g) /\ n_name n = u /\ n_type n = t.

  Lemma node_by_name n1 n2 : In n1 (g_nodes g) -> In n2 (g_nodes g) -> n_name n1 = n_name n2 -> n1 = n2.
  Proof. intros H1 H2 He. pose proof (build_nodup d g Hb) as Hn. unfold names in Hn. eapply NoDup_map_eq; eauto. Qed.

  Lemma typ_unique u t1 t2 : typ u t1 -> typ u t2 -> t1 = t2.
  Proof.
    intros (n1 & I1 & N1 & T1) (n2 & I2 & N2 & T2). assert (n1 = n2) by (apply node_by_name; congruence). congruence.
  Qed.

  Lemma router_typ u : is_router c u -> typ u NRouter.
  Proof.
    intros (r & Hr & <-). destruct (compile_inv _ _ _ Hc) as (dirs & nis & rts & rids & _ & Hrts & ->). cbn in Hr.
    destruct (mapM_In _ _ _ _ Hrts Hr) as (p & Hp & Hq). cbv beta in Hq.
    destruct (compile_router_in_ends _ _ _ _ _ Hq) as (N2 & _).
    apply (in_map fst) in Hp. apply zip_fst_incl in Hp. unfold nodes_of_type in Hp. apply filter_In in Hp. destruct Hp as (I2 & T2).
    exists (fst p). split; [exact I2|]. split; [congruence|]. destruct (n_type (fst p)); cbn in T2; congruence.
  Qed.

  Lemma ni_typ x : In x (c_nis c) -> typ (cn_name x) NNi.
  Proof.
    intros Hx. destruct (compile_inv _ _ _ Hc) as (dirs & nis & rts & rids & Hn & _ & ->). cbn in Hx.
    destruct (mapM_In _ _ _ _ Hn Hx) as (ni & Hni & Hq). destruct (compile_ni_spec _ _ _ _ Hq) as (N1 & _).
    unfold nodes_of_type in Hni. apply filter_In in Hni. destruct Hni as (I1 & T1).
    exists ni. split; [exact I1|]. split; [congruence|]. destruct (n_type ni); cbn in T1; congruence.
  Qed.

  Lemma unit_typ u : (is_router c u \/ exists x, In x (c_nis c) /\ cn_name x = u) -> typ u NRouter \/ typ u NNi.
  Proof. intros [H|(x & Hx & <-)]; [left; apply router_typ; exact H|right; apply ni_typ; exact Hx]. Qed.

  (* ------------------------------------------------------------------ what the edges at a node can be *)
  Lemma edge_kind e : is_link e = true \/ is_prot e = true.
  Proof. unfold is_link, is_prot. destruct (e_type e); cbn; auto. Qed.

  Lemma ep_nodes_in ed o : In ed (d_eps d) -> In o (arr_opts ed) ->
    In (mk_ep_node (ep_name ed) o) (g_nodes g) /\ In (mk_ni_node (ep_name ed) o) (g_nodes g).
  Proof.
    intros He Ho. rewrite (build_nodes d g Hb). split; apply in_app_iff; right; apply in_flat_map; exists ed; (split; [exact He|]);
      unfold endpoint_node_list; apply in_app_iff; [left|right]; apply in_map; exact Ho.
  Qed.

  (* a protocol edge joins the endpoint node and the interface node of one array element, one way or the other *)
  Lemma prot_ends e : In e (g_edges g) -> is_prot e = true ->
    exists nm o, In (mk_ep_node nm o) (g_nodes g) /\ In (mk_ni_node nm o) (g_nodes g) /\
      ((e_src e = ep_nm (nm +++ "_ni") o /\ e_dst e = ep_nm nm o) \/ (e_src e = ep_nm nm o /\ e_dst e = ep_nm (nm +++ "_ni") o)).
  Proof.
    intros He Hp. destruct (build_prot_edges d g Hb e He Hp) as (ed & Hed & Hin).
    unfold ep_prots in Hin. apply in_app_iff in Hin. destruct Hin as [Hin|Hin].
    - destruct (ep_is_sbr ed); [|destruct Hin]. apply in_map_iff in Hin. destruct Hin as (o & <- & Ho).
      destruct (ep_nodes_in ed o Hed Ho) as (N1 & N2). exists (ep_name ed), o. split; [exact N1|]. split; [exact N2|]. left. split; reflexivity.
    - destruct (ep_is_mgr ed); [|destruct Hin]. apply in_map_iff in Hin. destruct Hin as (o & <- & Ho).
      destruct (ep_nodes_in ed o Hed Ho) as (N1 & N2). exists (ep_name ed), o. split; [exact N1|]. split; [exact N2|]. right. split; reflexivity.
  Qed.

  Lemma ep_typ nm o : In (mk_ep_node nm o) (g_nodes g) -> typ (ep_nm nm o) NEndpoint.
  Proof. intros H. exists (mk_ep_node nm o). auto. Qed.
  Lemma nin_typ nm o : In (mk_ni_node nm o) (g_nodes g) -> typ (ep_nm (nm +++ "_ni") o) NNi.
  Proof. intros H. exists (mk_ni_node nm o). auto. Qed.

  (* out of a router: a link *)
  Lemma from_router u v : typ u NRouter -> E g u v -> is_link_of g (u, v).
  Proof.
    intros Hu (e & He & Hs & Hd). destruct (edge_kind e) as [Hl|Hp]; [exists e; auto|].
    exfalso. destruct (prot_ends e He Hp) as (nm & o & N1 & N2 & [(S1 & _)|(S1 & _)]).
    - pose proof (typ_unique u _ _ Hu ltac:(rewrite <- Hs, S1; apply nin_typ; exact N2)). discriminate.
    - pose proof (typ_unique u _ _ Hu ltac:(rewrite <- Hs, S1; apply ep_typ; exact N1)). discriminate.
  Qed.

  (* out of an interface: its one link, or the protocol edge to its own endpoint node *)
  Lemma from_ni x v : typ x NNi -> E g x v ->
    is_link_of g (x, v) \/ exists nm o, In (mk_ep_node nm o) (g_nodes g) /\ x = ep_nm (nm +++ "_ni") o /\ v = ep_nm nm o.
  Proof.
    intros Hx (e & He & Hs & Hd). destruct (edge_kind e) as [Hl|Hp]; [left; exists e; auto|]. right.
    destruct (prot_ends e He Hp) as (nm & o & N1 & N2 & [(S1 & D1)|(S1 & _)]).
    - exists nm, o. split; [exact N1|]. split; congruence.
    - exfalso. pose proof (typ_unique x _ _ Hx ltac:(rewrite <- Hs, S1; apply ep_typ; exact N1)). discriminate.
  Qed.

  (* out of an endpoint node: the protocol edge to its own interface node, nothing else *)
  Lemma from_endpoint nm o y : In (mk_ep_node nm o) (g_nodes g) -> E g (ep_nm nm o) y -> y = ep_nm (nm +++ "_ni") o.
  Proof.
    intros Hn (e & He & Hs & Hd). pose proof (ep_typ nm o Hn) as Ht.
    destruct (edge_kind e) as [Hl|Hp].
    - exfalso. destruct (HL (ep_nm nm o) y ltac:(exists e; auto)) as (Hu & _). apply unit_typ in Hu.
      destruct Hu as [Hu|Hu]; pose proof (typ_unique _ _ _ Ht Hu); discriminate.
    - destruct (prot_ends e He Hp) as (nm' & o' & N1 & N2 & [(S1 & _)|(S1 & D1)]).
      + exfalso. pose proof (typ_unique _ _ _ Ht ltac:(rewrite <- Hs, S1; apply nin_typ; exact N2)). discriminate.
      + assert (Heq : mk_ep_node nm o = mk_ep_node nm' o') by (apply node_by_name; auto; cbn; congruence).
        inversion Heq; subst. congruence.
  Qed.

  (* ------------------------------------------------------------------ simple paths *)
  (* the one link out of an interface leads back to where its one link in comes from *)
  Lemma ni_links_same x u w : In x (c_nis c) -> is_link_of g (u, cn_name x) -> is_link_of g (cn_name x, w) -> w = u.
  Proof.
    intros Hx (e & He & Hl & Hs & Hd) (e2 & He2 & Hl2 & Hs2 & Hd2). cbn [fst snd] in *.
    destruct (build_ginv d g Hb) as (Hsym & _). destruct (Hsym e He Hl) as (e' & He' & M1 & M2 & M3 & _).
    pose proof (compile_single_attach d g c Hb Hc) as SA.
    destruct (SA x e' Hx He' M3) as (A1 & _). destruct (SA x e2 Hx He2 Hl2) as (A2 & _).
    specialize (A1 ltac:(congruence)). specialize (A2 Hs2). unfold epair in A1, A2.
    assert (Heq : (e_src e', e_dst e') = (e_src e2, e_dst e2)) by congruence. inversion Heq. congruence.
  Qed.

  Lemma typ_ni_is x : typ x NNi -> (is_router c x \/ exists y, In y (c_nis c) /\ cn_name y = x) -> exists y, In y (c_nis c) /\ cn_name y = x.
  Proof.
    intros Hx [Hr|H]; [|exact H]. apply router_typ in Hr. pose proof (typ_unique _ _ _ Hx Hr). discriminate.
  Qed.

  (* a simple walk that starts at a router and ends at an interface t crosses routers only *)
  Lemma transit_walk t : In t (c_nis c) -> forall p u,
    is_walk (E g) p -> NoDup p -> hd_error p = Some u -> is_router c u -> last p u = cn_name t ->
    forall x, In x (removelast p) -> is_router c x.
  Proof.
    intros Ht. induction p as [|a p IH]; intros u Hw Hn Hh Hu Hlast x Hx; [destruct Hx|].
    cbn in Hh. inversion Hh; subst a; clear Hh.
    destruct p as [|v rest]; [destruct Hx|].
    cbn [is_walk] in Hw. destruct Hw as (Huv & Hw).
    change (removelast (u :: v :: rest)) with (u :: removelast (v :: rest)) in Hx.
    destruct Hx as [<-|Hx]; [exact Hu|].
    pose proof (from_router u v (router_typ u Hu) Huv) as Hl. destruct (HL u v Hl) as (_ & Hv).
    destruct Hv as [Hv|(xv & Hxv & Hnv)].
    - (* next is a router *)
      apply (IH v Hw); auto.
      + inversion Hn; assumption.
      + rewrite <- Hlast. change (last (u :: v :: rest) u) with (last (v :: rest) u). apply last_default.
    - (* next is an interface: it is the last node *)
      exfalso. subst v. pose proof (ni_typ xv Hxv) as Tv.
      destruct rest as [|w rest']; [destruct Hx|].
      cbn [is_walk] in Hw. destruct Hw as (Hvw & Hw').
      destruct (from_ni (cn_name xv) w Tv Hvw) as [Hl2|(nm & o & N1 & Ex & Ew)].
      + (* its link leads back to u *)
        pose proof (ni_links_same xv u w Hxv Hl Hl2) as ->. inversion Hn as [|? ? Hnin _]; subst. apply Hnin. right. left. reflexivity.
      + (* its endpoint node: not t, and from there only back *)
        destruct rest' as [|y rest''].
        * cbn [last] in Hlast. pose proof (typ_unique _ _ _ (ni_typ t Ht) ltac:(rewrite <- Hlast, Ew; apply ep_typ; exact N1)). discriminate.
        * cbn [is_walk] in Hw'. destruct Hw' as (Hwy & _). rewrite Ew in Hwy. apply (from_endpoint nm o y N1) in Hwy.
          rewrite <- Ex in Hwy. subst y. inversion Hn as [|? ? _ Hn2]; subst. inversion Hn2 as [|? ? Hnin _]; subst.
          apply Hnin. right. left. reflexivity.
  Qed.

  (* a simple walk of at least two nodes that starts at an interface s and ends at an interface continues with the
     router s injects into *)
  Lemma first_hop_walk s t : In s (c_nis c) -> In t (c_nis c) -> forall v rest,
    is_walk (E g) (cn_name s :: v :: rest) -> NoDup (cn_name s :: v :: rest) -> last (v :: rest) v = cn_name t ->
    v = snd (cn_mgr_link s).
  Proof.
    intros Hs Ht v rest Hw Hn Hlast. cbn [is_walk] in Hw. destruct Hw as (Hsv & Hw).
    destruct (from_ni (cn_name s) v (ni_typ s Hs) Hsv) as [Hl|(nm & o & N1 & Ex & Ev)].
    - destruct Hl as (e & He & Hle & Hse & Hde). cbn [fst snd] in *.
      destruct (compile_single_attach d g c Hb Hc s e Hs He Hle) as (A1 & _). specialize (A1 Hse). unfold epair in A1.
      rewrite <- A1. cbn. congruence.
    - exfalso. destruct rest as [|y rest'].
      + cbn [last] in Hlast. pose proof (typ_unique _ _ _ (ni_typ t Ht) ltac:(rewrite <- Hlast, Ev; apply ep_typ; exact N1)). discriminate.
      + cbn [is_walk] in Hw. destruct Hw as (Hvy & _). rewrite Ev in Hvy. apply (from_endpoint nm o y N1) in Hvy.
        rewrite <- Ex in Hvy. subst y. inversion Hn as [|? ? Hnin _]; subst. apply Hnin. right. left. reflexivity.
  Qed.
End Transit.

(* ------------------------------------------------------------------ the two side conditions are theorems *)
Lemma ni_links_paired d g c : build d = Ok g -> compile d g = Ok c ->
  forall s, In s (c_nis c) -> fst (cn_sbr_link s) = snd (cn_mgr_link s).
Proof.
  intros Hb Hc s Hs. destruct (compile_ni_links d g c Hc s Hs) as (M1 & (e & He & Hl & Hse & Hde) & _ & _).
  destruct (build_ginv d g Hb) as (Hsym & _). destruct (Hsym e He Hl) as (e' & He' & M2 & M3 & M4 & _).
  destruct (compile_single_attach d g c Hb Hc s e' Hs He' M4) as (_ & A2).
  specialize (A2 ltac:(congruence)). unfold epair in A2. rewrite <- A2. cbn. congruence.
Qed.

(* ID: every router has a shortest path to every interface (the tables were generated), and it runs through routers *)
Theorem transit_holds (sp : oracle) (B : nat) d g c ri :
  build d = Ok g -> compile d g = Ok c -> gen_routing_info sp c = Ok ri -> d_algo d = ID ->
  contract sp g c B -> links_typedb g c = true ->
  transit_allb sp c = true.
Proof.
  intros Hb Hc Hri Ha Hcon HLb. pose proof (links_typedb_ok g c HLb) as HL.
  destruct (compile_desc d g c Hc) as (Hcd & Hcg).
  rewrite transit_allb_eq. apply forallb_forall. intros t Ht. unfold transitb. apply forallb_forall. intros r Hr.
  destruct (Hcon t Ht) as (Cpath & Cmin & _ & _).
  (* the table of r was generated, so the oracle answered *)
  destruct (gri_inv sp c ri Hri) as (_ & _ & _ & Htab & _). specialize (Htab ltac:(rewrite Hcd; exact Ha)).
  destruct (mapM_In_l _ _ _ _ Htab Hr) as (y & _ & Hy). inv_bind Hy. unfold gen_table in E. inv_bind E.
  match goal with Hm : mapM _ (c_nis c) = Ok _ |- _ => destruct (mapM_In_l _ _ _ _ Hm Ht) as (ru & _ & Hru) end.
  rewrite Hcg in *. destruct (sp g (cr_name r) (cn_name t)) as [p|] eqn:Esp; [|discriminate].
  apply forallb_forall. intros x Hx.
  pose proof (Cpath _ _ Esp) as Hp. pose proof (shortest_nodup (NxProofs.E g) (cn_name t) p (cr_name r) (conj Hp (fun q Hq => Cmin _ _ q Esp Hq))) as Hnd.
  destruct Hp as (Hw & Hh & Hlast & _).
  pose proof (transit_walk d g c Hb Hc HL t Ht p (cr_name r) Hw Hnd Hh (ex_intro _ r (conj Hr eq_refl)) Hlast x Hx) as (r' & Hr' & Hn').
  unfold is_routerb. apply existsb_exists. exists r'. split; [exact Hr'|]. apply str_eqb_eq. exact Hn'.
Qed.

(* SRC: a shortest path between two interfaces starts with the router the source injects into (request and response
   network alike: the two links of an interface join it to the same router) *)
Theorem first_hop_holds (sp : oracle) (B : nat) d g c nt :
  build d = Ok g -> compile d g = Ok c -> contract sp g c B -> links_typedb g c = true ->
  first_hopb sp g c nt = true.
Proof.
  intros Hb Hc Hcon HLb. pose proof (links_typedb_ok g c HLb) as HL.
  unfold first_hopb. apply forallb_forall. intros s Hs. apply forallb_forall. intros t Ht.
  destruct (str_eqb (cn_name s) (cn_name t)) eqn:En; [reflexivity|]. cbn [orb].
  destruct (sp g (cn_name s) (cn_name t)) as [p|] eqn:Esp; [|reflexivity].
  destruct (Hcon t Ht) as (Cpath & Cmin & _ & _).
  pose proof (Cpath _ _ Esp) as Hp. pose proof (shortest_nodup (NxProofs.E g) (cn_name t) p (cn_name s) (conj Hp (fun q Hq => Cmin _ _ q Esp Hq))) as Hnd.
  destruct Hp as (Hw & Hh & Hlast & Hne).
  destruct p as [|a p']; [congruence|]. cbn in Hh. inversion Hh; subst a.
  destruct p' as [|v rest].
  - cbn in Hlast. rewrite Hlast, (proj2 (str_eqb_eq _ _) eq_refl) in En. discriminate.
  - assert (Hl2 : last (v :: rest) v = cn_name t).
    { rewrite <- Hlast. change (last (cn_name s :: v :: rest) (cn_name s)) with (last (v :: rest) (cn_name s)). apply last_default. }
    pose proof (first_hop_walk d g c Hb Hc HL s t Hs Ht v rest Hw Hnd Hl2) as Hv.
    cbn [tl hd]. apply str_eqb_eq. unfold attach_of. destruct nt; cbn [snd]; try (symmetry; exact Hv).
    rewrite (ni_links_paired d g c Hb Hc s Hs). symmetry. exact Hv.
Qed.

(* ------------------------------------------------------------------ the hardware-level theorems with what is left *)
(* For the generator's own (verified) oracle.  Of the former side conditions three are theorems now (distinct signal names
   8.18, single attachment 8.16, and with this file transit / first hop); what remains is decidable and about the
   description alone: links join routers and interfaces (links_typedb; `get_ni_name` uses str.replace), port counts fit
   the 32-bit index field (degrees_fitb), the source injects into a router. *)
From FV Require Import NxHw.

Lemma transitb_of_all sp c t : transit_allb sp c = true -> In t (c_nis c) -> transitb sp c t = true.
Proof. rewrite transit_allb_eq. intros H Ht. rewrite forallb_forall in H. exact (H t Ht). Qed.

Theorem hw_send_nx_min (d : desc) (g : graph) (c : compiled) (ri : rinfo) (n : netlist) (t : cni) (id : Z) (nt : net) :
  net_ok d nt ->
  build d = Ok g -> compile d g = Ok c -> gen_routing_info sp_nx c = Ok ri -> emit c ri = Ok n ->
  d_algo d = ID -> In t (c_nis c) -> id_num (cn_id t) = Ok id ->
  links_typedb g c = true -> degrees_fitb c = true ->
  forall s0 p, In s0 (c_nis c) -> cn_name s0 <> cn_name t -> is_rtb c (snd (attach nt s0)) = true ->
    sp_nx g (snd (attach nt s0)) (cn_name t) = Some p ->
    let tr := send n nt (emit_ni d (ri_offset ri) s0) (HId id) in
    t_out tr = Delivered (cn_name t) (HId id) /\ S (length (t_rts tr)) = length p /\
    forall q, path_to_t (NxProofs.E g) (cn_name t) q (snd (attach nt s0)) -> (length p <= length q)%nat.
Proof.
  intros Hnt Hb Hc Hri He Ha Ht Hid H3 H4.
  apply (hw_send_nx d g c ri n t id nt Hnt Hb Hc Hri He Ha Ht Hid); auto.
  - apply transitb_of_all; [|exact Ht]. exact (transit_holds sp_nx (nxB g) d g c ri Hb Hc Hri Ha (contract_nx d g c Hb Hc) H3).
  - exact (names_sepb_holds d g c nt Hc).
  - exact (single_attachb_holds d g c Hb Hc).
Qed.

Theorem hw_src_send_nx_min (d : desc) (g : graph) (c : compiled) (ri : rinfo) (n : netlist) (t : cni) (nt : net) :
  net_ok d nt ->
  build d = Ok g -> compile d g = Ok c -> gen_routing_info sp_nx c = Ok ri -> emit c ri = Ok n ->
  d_algo d = SRC -> In t (c_nis c) -> links_typedb g c = true ->
  forall s0 id ps p, In s0 (c_nis c) -> gen_route sp_nx c s0 t = Ok (id, Some ps) ->
    sp_nx g (cn_name s0) (cn_name t) = Some p ->
    let tr := send n nt (emit_ni d (ri_offset ri) s0) (hdr_of_word n (word_value ps)) in
    t_out tr = Delivered (cn_name t) (HRoute 0) /\ length (t_rts tr) = length ps /\ (2 + length ps = length p)%nat /\
    forall q, path_to_t (NxProofs.E g) (cn_name t) q (cn_name s0) -> (length p <= length q)%nat.
Proof.
  intros Hnt Hb Hc Hri He Ha Ht H3 s0 id ps p Hs0 Hgr Hsp.
  apply (hw_src_send_nx d g c ri n t nt Hnt Hb Hc Hri He Ha Ht (names_sepb_holds d g c nt Hc) (single_attachb_holds d g c Hb Hc) H3
           s0 id ps p Hs0 Hgr Hsp).
  (* the first hop *)
  pose proof (first_hop_holds sp_nx (nxB g) d g c nt Hb Hc (contract_nx d g c Hb Hc) H3) as Hfh.
  unfold first_hopb in Hfh. rewrite forallb_forall in Hfh. specialize (Hfh s0 Hs0). rewrite forallb_forall in Hfh. specialize (Hfh t Ht).
  assert (Hne : str_eqb (cn_name s0) (cn_name t) = false).
  { unfold gen_route in Hgr. inv_bind Hgr.
    destruct (str_eqb (cn_name s0) (cn_name t)) eqn:En; [cbn [orb] in Hgr; inversion Hgr|reflexivity]. }
  rewrite Hne, Hsp in Hfh. cbn [orb] in Hfh. apply str_eqb_eq in Hfh. rewrite <- Hfh.
  unfold attach, attach_of, rev_link. destruct nt; reflexivity.
Qed.

Theorem model_tree_C09_nx_min (d : desc) (g : graph) (c : compiled) (ri : rinfo) (n : netlist) (dp : list (string * Z)) :
  build d = Ok g -> compile d g = Ok c -> gen_routing_info sp_nx c = Ok ri -> emit c ri = Ok n -> d_algo d = ID ->
  links_typedb g c = true -> degrees_fitb c = true -> attachedb c Req = true -> attachedb c Rsp = true ->
  tree_certb g dp = true -> CdgProofs.C09_on n.
Proof.
  intros Hb Hc Hri He Ha H3 H4 A1 A2 Hcert.
  apply (model_tree_C09_nx d g c ri n dp Hb Hc Hri He Ha); auto.
  - rewrite <- transit_allb_eq. exact (transit_holds sp_nx (nxB g) d g c ri Hb Hc Hri Ha (contract_nx d g c Hb Hc) H3).
  - exact (names_sepb_holds d g c Req Hc).
  - exact (names_sepb_holds d g c Rsp Hc).
  - exact (single_attachb_holds d g c Hb Hc).
Qed.

Theorem model_tree_C09_src_nx_min (d : desc) (g : graph) (c : compiled) (ri : rinfo) (n : netlist) (dp : list (string * Z)) :
  build d = Ok g -> compile d g = Ok c -> gen_routing_info sp_nx c = Ok ri -> emit c ri = Ok n -> d_algo d = SRC ->
  links_typedb g c = true -> tree_certb g dp = true -> CdgProofs.C09_on n.
Proof.
  intros Hb Hc Hri He Ha H3 Hcert.
  apply (model_tree_C09_src_nx d g c ri n dp Hb Hc Hri He Ha); auto.
  - exact (first_hop_holds sp_nx (nxB g) d g c Req Hb Hc (contract_nx d g c Hb Hc) H3).
  - exact (first_hop_holds sp_nx (nxB g) d g c Rsp Hb Hc (contract_nx d g c Hb Hc) H3).
  - exact (names_sepb_holds d g c Req Hc).
  - exact (names_sepb_holds d g c Rsp Hc).
  - exact (single_attachb_holds d g c Hb Hc).
Qed.
