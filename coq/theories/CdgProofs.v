(* CdgProofs.v — channel-dependency graphs (C09):
   (E) the Kahn-style checker of Check.v is sound: an empty cyclic core means the graph is acyclic;
   (A) in an acyclic dependency graph no non-empty set of packets can wait for each other
       (every wanted channel held by a packet of the set that waits as well). *)
From FV Require Import Base RouteMap Netlist Hw Check CheckProofs.
From Coq Require Import ZifyBool.

Section Cdg.
  Notation chan := string.
  Definition egraph := list (chan * chan).

  Inductive path (E : egraph) : chan -> chan -> Prop :=
  | path_one u v : In (u, v) E -> path E u v
  | path_step u v w : In (u, v) E -> path E v w -> path E u w.
  Definition acyclic (E : egraph) : Prop := forall v, ~ path E v v.

  Lemma path_trans E u v w : path E u v -> path E v w -> path E u w.
  Proof. induction 1; intros; eauto using path_step. Qed.
  Lemma path_snoc E u v w : path E u v -> In (v, w) E -> path E u w.
  Proof. intros H1 H2. eapply path_trans; eauto using path_one. Qed.
  Lemma path_has_incoming E u v : path E u v -> exists c, In (c, v) E.
  Proof. induction 1; eauto. Qed.
  Lemma path_first E u v : path E u v -> exists c, In (u, c) E.
  Proof. induction 1; eauto. Qed.
  Lemma path_mono E E' u v : (forall e, In e E -> In e E') -> path E u v -> path E' u v.
  Proof. intros Hs. induction 1; eauto using path_one, path_step. Qed.

  (* ---------------------------------------------------------------- one Kahn step *)
  Definition has_in (E : egraph) (v : chan) : bool := existsb (fun e => str_eqb (snd e) v) E.
  Definition free_of (nodes : list chan) (E : egraph) : list chan :=
    filter (fun v => negb (has_in E v)) nodes.
  Definition prune (free : list chan) (E : egraph) : egraph :=
    filter (fun e => negb (existsb (str_eqb (fst e)) free)) E.

  Lemma has_in_true E c v : In (c, v) E -> has_in E v = true.
  Proof.
    intros H. unfold has_in. apply existsb_exists. exists (c, v). split; auto.
    apply str_eqb_eq. reflexivity.
  Qed.

  Lemma not_free nodes E c v : In (c, v) E -> ~ In v (free_of nodes E).
  Proof.
    intros H Hf. unfold free_of in Hf. apply filter_In in Hf. destruct Hf as (_ & Hf).
    rewrite (has_in_true E c v H) in Hf. discriminate.
  Qed.

  Lemma prune_keeps nodes E u v c : In (u, v) E -> In (c, u) E -> In (u, v) (prune (free_of nodes E) E).
  Proof.
    intros H Hc. unfold prune. apply filter_In. split; auto. cbn [fst].
    destruct (existsb (str_eqb u) (free_of nodes E)) eqn:Ex; [|reflexivity].
    apply existsb_exists in Ex. destruct Ex as (x & Hx & Ex). apply str_eqb_eq in Ex. subst x.
    exfalso. eapply not_free; eauto.
  Qed.

  (* a cycle survives the pruning *)
  Lemma cycle_survives nodes E u w :
    path E u w -> path E w u -> path (prune (free_of nodes E) E) u w.
  Proof.
    induction 1 as [u w Huw|u v w Huv Hvw IH]; intros Hback.
    - destruct (path_has_incoming E w u Hback) as (c & Hc).
      apply path_one. eapply prune_keeps; eauto.
    - destruct (path_has_incoming E w u Hback) as (c & Hc).
      eapply path_step; [eapply prune_keeps; eauto|].
      apply IH. eapply path_snoc; eauto.
  Qed.

  Lemma kahn_sound fuel : forall nodes E,
    kahn fuel nodes E = [] -> forall x, In x nodes -> ~ path E x x.
  Proof.
    induction fuel as [|f IH]; intros nodes E Hk x Hx Hp; cbn [kahn] in Hk.
    - subst nodes. destruct Hx.
    - change (filter (fun v => negb (existsb (fun e => str_eqb (snd e) v) E)) nodes)
        with (free_of nodes E) in Hk.
      destruct (free_of nodes E) as [|f0 fs] eqn:Ef.
      + subst nodes. destruct Hx.
      + rewrite <- Ef in Hk.
        change (filter (fun e => negb (existsb (str_eqb (fst e)) (free_of nodes E))) E)
          with (prune (free_of nodes E) E) in Hk.
        eapply (IH _ _ Hk x).
        * apply filter_In. split; [exact Hx|].
          destruct (existsb (str_eqb x) (free_of nodes E)) eqn:Ex; [|reflexivity].
          apply existsb_exists in Ex. destruct Ex as (y & Hy & Ey). apply str_eqb_eq in Ey. subst y.
          destruct (path_has_incoming E x x Hp) as (c & Hc). exfalso. eapply not_free; eauto.
        * apply cycle_survives; assumption.
  Qed.

  Lemma dedup_In l x : In x l -> In x (dedup l).
  Proof.
    unfold dedup. assert (G : forall acc, (In x acc \/ In x l) ->
      In x (fold_left (fun acc x => if existsb (str_eqb x) acc then acc else acc ++ [x]) l acc)).
    { induction l as [|y ys IH]; intros acc [H|H]; cbn [fold_left]; auto; try destruct H.
      - apply IH. left. destruct (existsb (str_eqb y) acc); auto using in_or_app.
      - subst y. apply IH. left. destruct (existsb (str_eqb x) acc) eqn:Ex.
        + apply existsb_exists in Ex. destruct Ex as (z & Hz & Ez). apply str_eqb_eq in Ez. subst. auto.
        + apply in_or_app. right. cbn. auto.
      - apply IH. right. exact H. }
    intros H. apply G. auto.
  Qed.

  Theorem cyclic_core_sound E : cyclic_core E = [] -> acyclic E.
  Proof.
    unfold cyclic_core, acyclic. intros Hk v Hp.
    eapply (kahn_sound _ _ _ Hk v); [|exact Hp].
    apply dedup_In. destruct (path_first E v v Hp) as (c & Hc).
    apply in_flat_map. exists (v, c). split; [exact Hc|cbn; auto].
  Qed.

  (* ---------------------------------------------------------------- (A) no deadlock *)
  (* a walk: consecutive nodes are joined by edges *)
  Fixpoint walk_in (E : egraph) (l : list chan) : Prop :=
    match l with
    | a :: ((b :: _) as tl) => In (a, b) E /\ walk_in E tl
    | _ => True
    end.

  Lemma walk_path E a l b : walk_in E (a :: l ++ [b]) -> path E a b.
  Proof.
    revert a. induction l as [|x xs IH]; intros a; cbn.
    - intros (H & _). apply path_one. exact H.
    - intros (H1 & H2). eapply path_step; [exact H1|]. apply IH. exact H2.
  Qed.

  Lemma walk_app_inv E l1 l2 : walk_in E (l1 ++ l2) -> walk_in E l2.
  Proof.
    induction l1 as [|a l1 IH]; cbn [app]; auto. intros H. apply IH.
    destruct (l1 ++ l2); cbn in *; tauto.
  Qed.
  Lemma walk_cons2 E a b l : walk_in E (a :: b :: l) <-> In (a, b) E /\ walk_in E (b :: l).
  Proof. reflexivity. Qed.
  Lemma walk_prefix E l1 l2 : walk_in E (l1 ++ l2) -> walk_in E l1.
  Proof.
    induction l1 as [|a l1 IH]; [cbn; auto|]. intros H.
    destruct l1 as [|b l1']; [cbn; auto|].
    change ((a :: b :: l1') ++ l2) with (a :: b :: (l1' ++ l2)) in H.
    apply walk_cons2 in H. destruct H as (H1 & H2). apply walk_cons2. split; [exact H1|].
    apply IH. exact H2.
  Qed.

  Lemma acyclic_walk_nodup E l : acyclic E -> walk_in E l -> NoDup l.
  Proof.
    intros Ha. induction l as [|a l IH]; intros Hw; [constructor|].
    constructor.
    - intros Hin. apply in_split in Hin. destruct Hin as (l1 & l2 & ->).
      apply (Ha a). apply (walk_path E a l1 a).
      replace (a :: l1 ++ a :: l2) with ((a :: l1 ++ [a]) ++ l2) in Hw
        by (cbn; rewrite <- app_assoc; reflexivity).
      apply (walk_prefix E _ l2 Hw).
    - apply IH. destruct l; cbn in *; tauto.
  Qed.

  (* every wanted channel is held by a packet that waits as well *)
  Definition all_wait (W : egraph) : Prop := forall c c', In (c, c') W -> exists c'', In (c', c'') W.

  Lemma long_walk W c c' : all_wait W -> In (c, c') W ->
    forall k, exists l, length l = S k /\ walk_in W (c :: l) /\ exists d rest, l = d :: rest.
  Proof.
    intros Hall. revert c c'. assert (G : forall k c c', In (c, c') W ->
      exists l, length l = S k /\ walk_in W (c :: l)).
    { induction k as [|k IH]; intros c c' Hin.
      - exists [c']. cbn. auto.
      - destruct (Hall c c' Hin) as (c'' & Hin'). destruct (IH c' c'' Hin') as (l & Hl & Hw).
        exists (c' :: l). cbn [length]. split; [lia|]. cbn [walk_in]. split; auto. }
    intros c c' Hin k. destruct (G k c c' Hin) as (l & Hl & Hw). exists l. repeat split; auto.
    destruct l; [discriminate|eauto].
  Qed.

  Definition chans_of (W : egraph) : list chan := flat_map (fun e => [fst e; snd e]) W.

  Lemma walk_incl W l : (2 <= length l)%nat -> walk_in W l -> incl l (chans_of W).
  Proof.
    induction l as [|a l IH]; cbn [length]; [lia|]. intros Hlen Hw x Hx.
    destruct l as [|b l']; [cbn in Hlen; lia|]. cbn [walk_in] in Hw. destruct Hw as (Hab & Hw).
    destruct Hx as [<-|Hx].
    - apply in_flat_map. exists (a, b). cbn; auto.
    - destruct l' as [|c l''].
      + destruct Hx as [<-|[]]. apply in_flat_map. exists (a, b). cbn; auto.
      + apply IH; auto. cbn. lia.
  Qed.

  Theorem acyclic_no_deadlock (deps W : egraph) :
    acyclic deps -> (forall e, In e W -> In e deps) -> all_wait W -> W = [].
  Proof.
    intros Ha Hsub Hall. destruct W as [|[c c'] W'] eqn:EW; [reflexivity|exfalso].
    rewrite <- EW in *.
    assert (Hin : In (c, c') W) by (rewrite EW; cbn; auto).
    assert (HaW : acyclic W) by (intros v Hp; apply (Ha v); eapply path_mono; eauto).
    destruct (long_walk W c c' Hall Hin (length (chans_of W))) as (l & Hl & Hw & _).
    pose proof (acyclic_walk_nodup W (c :: l) HaW Hw) as Hnd.
    assert (Hi : incl (c :: l) (chans_of W)) by (apply walk_incl; [cbn; lia|exact Hw]).
    pose proof (NoDup_incl_length Hnd Hi) as Hle. cbn [length] in Hle. lia.
  Qed.
End Cdg.

(* ---------------------------------------------------------------- the statement on a netlist *)
Definition C09_on (n : netlist) : Prop :=
  forall nt, nt = Req \/ nt = Rsp ->
    acyclic (c09_deps n nt) /\
    (* hence: no set of packets, each holding a link and waiting for the next link of its route,
       can wait for each other *)
    forall W, (forall e, In e W -> In e (c09_deps n nt)) -> all_wait W -> W = [].

Theorem chk_C09_sound n : chk_C09 n = [] -> C09_on n.
Proof.
  unfold chk_C09. intros H nt Hnt.
  assert (Hc : cyclic_core (c09_deps n nt) = []).
  { pose proof (flat_map_nil _ _ H nt) as G. cbv beta in G.
    destruct (cyclic_core (c09_deps n nt)); [reflexivity|].
    destruct Hnt as [-> | ->]; (exfalso; assert (X : In Req [Req; Rsp] /\ In Rsp [Req; Rsp]) by (cbn; auto);
      destruct X as (X1 & X2); first [specialize (G X1); discriminate G|specialize (G X2); discriminate G]). }
  pose proof (cyclic_core_sound _ Hc) as Ha. split; [exact Ha|].
  intros W Hsub Hall. eapply acyclic_no_deadlock; eauto.
Qed.
