(* AxiProofs.v — C08 on the model: the AXI bus objects a network interface carries, the top-level ports
   they declare and the element of those ports each interface binds. *)
From FV Require Import Base AddrRange Graph Desc Build Netlist Compile Routing Emit ModelBase ParseProofs.
From Coq Require Import ZifyBool.

Definition bus_ok (e : ep_desc) (role : string) (arr : option (list Z)) (b : bus) : Prop :=
  b_ep b = ep_name e /\ b_dir b = role /\ b_array b = ep_array e /\
  b_idx b = match ep_array e with Some _ => arr | None => None end.

Lemma mk_buses_spec d e role names arr l : mk_buses d e role names arr = Ok l ->
  Forall (bus_ok e role arr) l /\
  map (fun b => p_name (b_proto b)) l = match names with Some ns => ns | None => [] end /\
  Forall (fun b => In (b_proto b) (d_protos d)) l.
Proof.
  unfold mk_buses. destruct names as [ns|]; [|intros H; inversion H; subst; cbn; auto].
  revert l. induction ns as [|nm ns IH]; intros l H; cbn [mapM] in H.
  - inversion H; subst. cbn. auto.
  - inv_bind H. inversion H; subst; clear H. inv_bind E. inversion E; subst; clear E.
    destruct (IH _ E0) as (I1 & I2 & I3).
    unfold find_proto in E1. destruct (find _ (d_protos d)) as [p|] eqn:F; [|discriminate]. inversion E1; subst a1.
    apply find_some in F. destruct F as (Fin & Fn). apply String.eqb_eq in Fn.
    split; [constructor; [unfold bus_ok; cbn; auto|exact I1]|].
    split; [cbn; rewrite I2, Fn; reflexivity|constructor; [exact Fin|exact I3]].
Qed.

(* what compile_ni attaches to an interface *)
Theorem compile_ni_buses d g ni x : compile_ni d g ni = Ok x ->
  cn_arr x = n_arr ni /\ find_ep d (n_desc ni) = Some (cn_ep x) /\
  Forall (bus_ok (cn_ep x) "input" (n_arr ni)) (cn_mgr_buses x) /\
  map (fun b => p_name (b_proto b)) (cn_mgr_buses x) = match ep_mgr (cn_ep x) with Some ns => ns | None => [] end /\
  Forall (bus_ok (cn_ep x) "output" (n_arr ni)) (cn_sbr_buses x) /\
  map (fun b => p_name (b_proto b)) (cn_sbr_buses x) = match ep_sbr (cn_ep x) with Some ns => ns | None => [] end.
Proof.
  unfold compile_ni. destruct (find_ep d (n_desc ni)) as [e|] eqn:Fe; [|discriminate].
  intros H. inv_bind H. inversion H; subst x; clear H. cbn.
  destruct (mk_buses_spec _ _ _ _ _ _ E5) as (M1 & M2 & _). destruct (mk_buses_spec _ _ _ _ _ _ E6) as (S1 & S2 & _).
  auto 10.
Qed.

(* the ports a bus declares: direction follows the role *)
Theorem bus_ports_mgr e arr b : bus_ok e "input" arr b ->
  bus_ports b =
  [{| pd_dir := "input"; pd_type := type_name (b_proto b) +++ "_req_t"; pd_dims := bus_dims b;
      pd_name := (ep_name e +++ "_" +++ p_name (b_proto b)) +++ "_req_i" |};
   {| pd_dir := "output"; pd_type := type_name (b_proto b) +++ "_rsp_t"; pd_dims := bus_dims b;
      pd_name := (ep_name e +++ "_" +++ p_name (b_proto b)) +++ "_rsp_o" |}].
Proof. intros (H1 & H2 & _). unfold bus_ports. rewrite H1, H2. reflexivity. Qed.

Theorem bus_ports_sbr e arr b : bus_ok e "output" arr b ->
  bus_ports b =
  [{| pd_dir := "output"; pd_type := type_name (b_proto b) +++ "_req_t"; pd_dims := bus_dims b;
      pd_name := (ep_name e +++ "_" +++ p_name (b_proto b)) +++ "_req_o" |};
   {| pd_dir := "input"; pd_type := type_name (b_proto b) +++ "_rsp_t"; pd_dims := bus_dims b;
      pd_name := (ep_name e +++ "_" +++ p_name (b_proto b)) +++ "_rsp_i" |}].
Proof. intros (H1 & H2 & _). unfold bus_ports. rewrite H1, H2. reflexivity. Qed.

(* the array shape of a port is the endpoint's shape with unit dimensions dropped *)
Theorem bus_dims_spec e role arr b : bus_ok e role arr b ->
  bus_dims b = match ep_array e with Some a => filter (fun x => negb (x =? 1)) a | None => [] end.
Proof. intros (_ & _ & H3 & _). unfold bus_dims. rewrite H3. reflexivity. Qed.

Lemma sapp_nil_r s : s +++ "" = s.
Proof. induction s as [|c s IH]; cbn; [reflexivity|]. rewrite IH. reflexivity. Qed.
Lemma sapp_assoc a b c : (a +++ b) +++ c = a +++ (b +++ c).
Proof. induction a as [|x a IH]; cbn; [reflexivity|]. rewrite IH. reflexivity. Qed.

(* the element an interface binds: its own array index, unit dimensions skipped -- and that index is the
   one in its enumeration name *)
Theorem bus_idx_2d e role i j m n b : bus_ok e role (Some [i; j]) b -> ep_array e = Some [m; n] ->
  bus_idx b = (if m =? 1 then "" else "[" +++ Z_to_string i +++ "]") +++ (if n =? 1 then "" else "[" +++ Z_to_string j +++ "]").
Proof.
  intros (_ & _ & H3 & H4) Ha. unfold bus_idx. rewrite H4, H3, Ha. cbn.
  destruct (m =? 1), (n =? 1); cbn; rewrite ?sapp_nil_r, ?sapp_assoc; cbn; rewrite ?sapp_nil_r; reflexivity.
Qed.
Theorem bus_idx_1d e role i n b : bus_ok e role (Some [i]) b -> ep_array e = Some [n] ->
  bus_idx b = if n =? 1 then "" else "[" +++ Z_to_string i +++ "]".
Proof. intros (_ & _ & H3 & H4) Ha. unfold bus_idx. rewrite H4, H3, Ha. cbn. destruct (n =? 1); cbn; rewrite ?sapp_nil_r; reflexivity. Qed.
Theorem bus_idx_single e role arr b : bus_ok e role arr b -> ep_array e = None -> bus_idx b = "".
Proof. intros (_ & _ & H3 & H4) Ha. unfold bus_idx. rewrite H4, Ha. reflexivity. Qed.

Theorem enum_name_2d x i j : cn_arr x = Some [i; j] ->
  enum_name x = ep_name (cn_ep x) +++ "_x" +++ Z_to_string i +++ "_y" +++ Z_to_string j.
Proof. intros H. unfold enum_name. rewrite H. reflexivity. Qed.

(* each side of an interface is enabled exactly when a bus of that side exists, and tied off otherwise *)
Theorem ni_bindings_spec prefix mgr sbr :
  ni_bindings prefix mgr sbr =
  (match mgr with
   | Some b => [(prefix +++ "in_req_i", bus_req_port b); (prefix +++ "in_rsp_o", bus_rsp_port b)]
   | None => [(prefix +++ "in_req_i", "'0"); (prefix +++ "in_rsp_o", "open")]
   end) ++
  (match sbr with
   | Some b => [(prefix +++ "out_req_o", bus_req_port b); (prefix +++ "out_rsp_i", bus_rsp_port b)]
   | None => [(prefix +++ "out_req_o", "open"); (prefix +++ "out_rsp_i", "'0")]
   end).
Proof. reflexivity. Qed.

Theorem emit_ni_flags_axi d off x :
  d_nw d = false ->
  ni_flags (emit_ni d off x) =
    [("ChimneyCfg", (is_some (pick_bus false "" (cn_sbr_buses x)), is_some (pick_bus false "" (cn_mgr_buses x))))] /\
  ni_axi (emit_ni d off x) = ni_bindings "axi_" (pick_bus false "" (cn_mgr_buses x)) (pick_bus false "" (cn_sbr_buses x)).
Proof. intros H. unfold emit_ni. rewrite H. cbn. auto. Qed.

(* on an axi network a side exists iff the descriptor lists a protocol for it *)
Lemma filter_true {A} (l : list A) : filter (fun _ => true) l = l.
Proof. induction l as [|x xs IH]; cbn; [reflexivity|]. rewrite IH. reflexivity. Qed.
Lemma last_some {A} (l : list A) x : exists y, last (map Some (x :: l)) None = Some y.
Proof. revert x. induction l as [|z l IH]; intros x; cbn [map last]; [eauto|]. apply (IH z). Qed.

Theorem pick_bus_axi l : (l = [] /\ pick_bus false "" l = None) \/ (l <> [] /\ exists b, pick_bus false "" l = Some b /\ In b l).
Proof.
  unfold pick_bus. cbn [negb orb]. rewrite filter_true. destruct l as [|x l]; [left; auto|right].
  split; [discriminate|]. revert x. induction l as [|z l IH]; intros x; cbn [map last].
  - exists x. cbn. auto.
  - destruct (IH z) as (b & Hb & Hin). exists b. split; [exact Hb|]. cbn in *. tauto.
Qed.

(* ------------------------------------------------------------------ narrow-wide networks *)
Theorem emit_ni_flags_nw d off x :
  d_nw d = true ->
  let mn := pick_bus true "narrow" (cn_mgr_buses x) in let sn := pick_bus true "narrow" (cn_sbr_buses x) in
  let mw := pick_bus true "wide" (cn_mgr_buses x) in let sw := pick_bus true "wide" (cn_sbr_buses x) in
  ni_flags (emit_ni d off x) = [("ChimneyCfgN", (is_some sn, is_some mn)); ("ChimneyCfgW", (is_some sw, is_some mw))] /\
  ni_axi (emit_ni d off x) = ni_bindings "axi_narrow_" mn sn ++ ni_bindings "axi_wide_" mw sw /\
  ni_module (emit_ni d off x) = "floo_nw_chimney".
Proof. intros H. unfold emit_ni. rewrite H. cbn. auto. Qed.

Definition has_kind (kind : string) (b : bus) : bool :=
  match p_type (b_proto b) with Some t => str_eqb t kind | None => false end.

(* the narrow (wide) side of a role is the LAST bus of that role whose protocol has that type; it is absent exactly
   when the role lists no protocol of that type *)
Theorem pick_bus_nw kind l :
  (pick_bus true kind l = None /\ forall b, In b l -> has_kind kind b = false) \/
  (exists b pre post, pick_bus true kind l = Some b /\ l = pre ++ b :: post /\ has_kind kind b = true /\
                      forall b', In b' post -> has_kind kind b' = false).
Proof.
  unfold pick_bus. cbn [negb orb]. fold (has_kind kind).
  induction l as [|x l IH]; [left; cbn; split; [reflexivity|intros ? []]|].
  cbn [filter]. destruct (has_kind kind x) eqn:Ex.
  - right. destruct IH as [(Hn & Hall)|(b & pre & post & Hb & -> & Hk & Hpost)].
    + exists x, [], l. split; [|split; [reflexivity|split; [exact Ex|exact Hall]]].
      cbn [map]. destruct (filter (has_kind kind) l) as [|y ys] eqn:F; [reflexivity|].
      exfalso. assert (In y (filter (has_kind kind) l)) by (rewrite F; left; reflexivity).
      apply filter_In in H. destruct H as (Hy & Hky). rewrite (Hall y Hy) in Hky. discriminate.
    + exists b, (x :: pre), post. split; [|split; [reflexivity|split; assumption]].
      cbn [map]. destruct (filter (has_kind kind) (pre ++ b :: post)) as [|y ys] eqn:F; [cbn in Hb; discriminate|].
      cbn [map] in Hb. exact Hb.
  - destruct IH as [(Hn & Hall)|(b & pre & post & Hb & -> & Hk & Hpost)].
    + left. split; [exact Hn|]. intros b [<-|Hb]; [exact Ex|apply Hall; exact Hb].
    + right. exists b, (x :: pre), post. auto.
Qed.

Corollary nw_side_enabled kind l : is_some (pick_bus true kind l) = existsb (has_kind kind) l.
Proof.
  destruct (pick_bus_nw kind l) as [(Hn & Hall)|(b & pre & post & Hb & -> & Hk & _)].
  - rewrite Hn. cbn. symmetry. apply not_true_iff_false. intros H. apply existsb_exists in H. destruct H as (b & Hb & Hk).
    rewrite (Hall b Hb) in Hk. discriminate.
  - rewrite Hb. cbn. symmetry. apply existsb_exists. exists b. split; [apply in_or_app; right; left; reflexivity|exact Hk].
Qed.

(* ------------------------------------------------------------------ distinct port names (repair 8.17) *)
Theorem compile_port_names_nodup d g c : compile d g = Ok c -> NoDup (port_base_names d).
Proof.
  unfold compile. intros H. inv_bind H.
  match goal with E : compile_endpoints d g = Ok _ |- _ => unfold compile_endpoints in E;
    destruct (nodupb str_eqb (port_base_names d)) eqn:N; [|discriminate E] end.
  apply ParseProofs.nodupb_NoDup. exact N.
Qed.

(* ------------------------------------------------------------------ the AXI configuration records *)
(* AxiCfg (axi) / AxiCfgN, AxiCfgW (narrow-wide): address, data and user width are those of EVERY protocol of that kind
   (they all agree: parse_desc_ok, parse_desc_widths), the two id widths are those of an input and of an output protocol
   of that kind that an endpoint really uses *)
Definition cfg_field (fields : list (string * Z)) (k : string) : option Z := option_map snd (find (fun f => str_eqb (fst f) k) fields).

Theorem axi_cfgs_agree v d g c axi :
  parse_desc v = Ok d -> compile d g = Ok c -> emit_axi_cfgs c = Ok axi ->
  forall name fields, In (name, fields) axi ->
    exists kind pi po, In pi (d_protos d) /\ In po (d_protos d) /\
      (if d_nw d then (name = "AxiCfgN" /\ kind = "narrow") \/ (name = "AxiCfgW" /\ kind = "wide") else name = "AxiCfg") /\
      (d_nw d = true -> of_kind kind pi = true /\ of_kind kind po = true) /\
      cfg_field fields "InIdWidth" = Some (p_id pi) /\ cfg_field fields "OutIdWidth" = Some (p_id po) /\
      forall p, In p (d_protos d) -> (d_nw d = true -> of_kind kind p = true) ->
        cfg_field fields "AddrWidth" = Some (p_addr p) /\ cfg_field fields "DataWidth" = Some (p_data p) /\
        cfg_field fields "UserWidth" = Some (p_user p).
Proof.
  intros Hp Hc Ha name fields Hin.
  assert (Hcd : c_desc c = d) by (unfold compile in Hc; inv_bind Hc; inversion Hc; reflexivity).
  destruct (parse_desc_ok v d Hp) as (_ & _ & _ & _ & Haddr & _).
  destruct (parse_desc_widths v d Hp) as (Wa & Wn).
  unfold emit_axi_cfgs in Ha. rewrite Hcd in Ha.
  assert (Ffind : forall kind dir p, first_proto c kind dir = Some p ->
            In p (d_protos d) /\ match kind with Some k => of_kind k p = true | None => True end).
  { intros kind dir p Hf. unfold first_proto in Hf. rewrite Hcd in Hf. apply find_some in Hf. destruct Hf as (Hi & Hq). split; [exact Hi|].
    destruct kind as [k|]; [|exact I]. destruct (proto_dir c p); [|discriminate]. apply andb_true_iff in Hq. destruct Hq as (_ & Hq).
    unfold of_kind. exact Hq. }
  destruct (d_nw d) eqn:Enw.
  - destruct (first_proto c (Some "narrow") "input") as [ni_|] eqn:F1; [|discriminate].
    destruct (first_proto c (Some "narrow") "output") as [no_|] eqn:F2; [|discriminate].
    destruct (first_proto c (Some "wide") "input") as [wi_|] eqn:F3; [|discriminate].
    destruct (first_proto c (Some "wide") "output") as [wo_|] eqn:F4; [|discriminate].
    inversion Ha; subst axi; clear Ha.
    destruct (Ffind _ _ _ F1) as (I1 & K1). destruct (Ffind _ _ _ F2) as (I2 & K2).
    destruct (Ffind _ _ _ F3) as (I3 & K3). destruct (Ffind _ _ _ F4) as (I4 & K4).
    destruct (Wn eq_refl) as (_ & Wk).
    destruct Hin as [Hin|[Hin|[]]]; unfold axi_cfg in Hin; inversion Hin; subst name fields; clear Hin.
    + exists "narrow", ni_, no_. repeat split; auto. 
      * rewrite (Haddr p ni_ H I1). reflexivity.
      * destruct (Wk "narrow" (or_introl eq_refl) p ni_ H I1 (H0 eq_refl) K1) as (A & _). cbn. rewrite A. reflexivity.
      * destruct (Wk "narrow" (or_introl eq_refl) p ni_ H I1 (H0 eq_refl) K1) as (_ & B). cbn. rewrite B. reflexivity.
    + exists "wide", wi_, wo_. repeat split; auto.
      * rewrite (Haddr p wi_ H I3). reflexivity.
      * destruct (Wk "wide" (or_intror eq_refl) p wi_ H I3 (H0 eq_refl) K3) as (A & _). cbn. rewrite A. reflexivity.
      * destruct (Wk "wide" (or_intror eq_refl) p wi_ H I3 (H0 eq_refl) K3) as (_ & B). cbn. rewrite B. reflexivity.
  - destruct (first_proto c None "input") as [i_|] eqn:F1; [|discriminate].
    destruct (first_proto c None "output") as [o_|] eqn:F2; [|discriminate].
    inversion Ha; subst axi; clear Ha.
    destruct (Ffind _ _ _ F1) as (I1 & _). destruct (Ffind _ _ _ F2) as (I2 & _).
    destruct Hin as [Hin|[]]. unfold axi_cfg in Hin. inversion Hin; subst name fields; clear Hin.
    exists "", i_, o_. repeat split; auto; try discriminate.
    + rewrite (Haddr p i_ H I1). reflexivity.
    + destruct (Wa eq_refl p i_ H I1) as (A & _). cbn. rewrite A. reflexivity.
    + destruct (Wa eq_refl p i_ H I1) as (_ & B). cbn. rewrite B. reflexivity.
Qed.
