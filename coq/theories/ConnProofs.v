(* ConnProofs.v — C06 on the model: how create_connection pairs its source and destination selections.
   Equal lengths pair position by position; with allow_multi and k*|dsts| = |srcs| (k >= 2) destination j
   is paired with the contiguous group srcs[j*k .. (j+1)*k); symmetrically for |dsts| = k*|srcs|;
   every other combination of lengths is rejected. *)
From FV Require Import Base Graph Desc Build ModelBase.
From Coq Require Import ZifyBool.

Lemma repeat_each_length {A} k (l : list A) : length (repeat_each k l) = (k * length l)%nat.
Proof. induction l as [|x xs IH]; cbn [repeat_each length]; [lia|]. rewrite app_length, repeat_length, IH. lia. Qed.

Lemma nth_error_repeat {A} (x : A) k j : (j < k)%nat -> nth_error (repeat x k) j = Some x.
Proof. revert j. induction k as [|k IH]; intros [|j] H; cbn; try lia; auto. apply IH. lia. Qed.

(* element j of repeat_each k l is element j / k of l *)
Lemma repeat_each_nth {A} k (l : list A) : (0 < k)%nat ->
  forall j, nth_error (repeat_each k l) j = nth_error l (j / k).
Proof.
  intros Hk. induction l as [|x xs IH]; intros j; cbn [repeat_each].
  - destruct j; destruct (_ / k)%nat; reflexivity.
  - destruct (Nat.lt_ge_cases j k) as [Hlt|Hge].
    + rewrite nth_error_app1 by (rewrite repeat_length; exact Hlt).
      rewrite Nat.div_small by exact Hlt. cbn. apply nth_error_repeat. exact Hlt.
    + rewrite nth_error_app2 by (rewrite repeat_length; exact Hge). rewrite repeat_length, IH.
      replace (j / k)%nat with (S ((j - k) / k)); [reflexivity|].
      replace j with ((j - k) + 1 * k)%nat at 2 by lia. rewrite Nat.div_add by lia. lia.
Qed.

Lemma zip_nth {A B} (l : list A) (m : list B) j a b :
  nth_error l j = Some a -> nth_error m j = Some b -> nth_error (zip l m) j = Some (a, b).
Proof.
  revert m j. induction l as [|x xs IH]; intros [|y ys] [|j]; cbn; try discriminate.
  - intros H1 H2. inversion H1; inversion H2; reflexivity.
  - apply IH.
Qed.
Lemma zip_length {A B} (l : list A) (m : list B) : length (zip l m) = Nat.min (length l) (length m).
Proof. revert m. induction l as [|x xs IH]; intros [|y ys]; cbn; auto. Qed.

Theorem pair_up_spec srcs dsts multi pairs : pair_up srcs dsts multi = Ok pairs ->
  let ns := length srcs in let nd := length dsts in
  (ns = nd /\ pairs = zip srcs dsts) \/
  (multi = true /\ exists k, (2 <= k)%nat /\ ns = (k * nd)%nat /\ length pairs = ns /\
     forall j s, nth_error srcs j = Some s -> exists t, nth_error dsts (j / k) = Some t /\ nth_error pairs j = Some (s, t)) \/
  (multi = true /\ exists k, (2 <= k)%nat /\ nd = (k * ns)%nat /\ length pairs = nd /\
     forall j t, nth_error dsts j = Some t -> exists s, nth_error srcs (j / k) = Some s /\ nth_error pairs j = Some (s, t)).
Proof.
  unfold pair_up. cbv zeta.
  destruct (Z.of_nat (length srcs) =? Z.of_nat (length dsts)) eqn:E1.
  - intros H. inversion H; subst. left. split; [lia|reflexivity].
  - destruct (multi && (0 <? Z.of_nat (length dsts)) && (Z.of_nat (length srcs) mod Z.of_nat (length dsts) =? 0) &&
              (Z.of_nat (length dsts) <? Z.of_nat (length srcs))) eqn:E2.
    + intros H. inversion H; subst; clear H. right. left.
      apply andb_true_iff in E2. destruct E2 as (E2 & E5). apply andb_true_iff in E2. destruct E2 as (E2 & E4).
      apply andb_true_iff in E2. destruct E2 as (E2 & E3). split; [exact E2|].
      set (k := Z.to_nat (Z.of_nat (length srcs) / Z.of_nat (length dsts))).
      assert (Hk : Z.of_nat (length srcs) = Z.of_nat k * Z.of_nat (length dsts)).
      { unfold k. rewrite Z2Nat.id by (apply Z.div_pos; lia).
        pose proof (Z.div_mod (Z.of_nat (length srcs)) (Z.of_nat (length dsts))). lia. }
      exists k. assert (2 <= k)%nat by nia. split; [assumption|]. split; [nia|].
      assert (Hlen : length (repeat_each k dsts) = length srcs) by (rewrite repeat_each_length; nia).
      split; [rewrite zip_length, Hlen; lia|].
      intros j s Hs.
      assert (Hj : (j < length srcs)%nat) by (apply nth_error_Some; congruence).
      destruct (nth_error dsts (j / k)) as [t|] eqn:Et.
      * exists t. split; [reflexivity|]. apply zip_nth; [exact Hs|]. rewrite repeat_each_nth by lia. exact Et.
      * exfalso. apply nth_error_None in Et.
        assert (j / k < length dsts)%nat; [|lia]. apply Nat.div_lt_upper_bound; nia.
    + destruct (multi && (0 <? Z.of_nat (length srcs)) && (Z.of_nat (length dsts) mod Z.of_nat (length srcs) =? 0) &&
                (Z.of_nat (length srcs) <? Z.of_nat (length dsts))) eqn:E3; [|discriminate].
      intros H. inversion H; subst; clear H. right. right.
      apply andb_true_iff in E3. destruct E3 as (E3 & E6). apply andb_true_iff in E3. destruct E3 as (E3 & E5).
      apply andb_true_iff in E3. destruct E3 as (E3 & E4). split; [exact E3|].
      set (k := Z.to_nat (Z.of_nat (length dsts) / Z.of_nat (length srcs))).
      assert (Hk : Z.of_nat (length dsts) = Z.of_nat k * Z.of_nat (length srcs)).
      { unfold k. rewrite Z2Nat.id by (apply Z.div_pos; lia).
        pose proof (Z.div_mod (Z.of_nat (length dsts)) (Z.of_nat (length srcs))). lia. }
      exists k. assert (2 <= k)%nat by nia. split; [assumption|]. split; [nia|].
      assert (Hlen : length (repeat_each k srcs) = length dsts) by (rewrite repeat_each_length; nia).
      split; [rewrite zip_length, Hlen; lia|].
      intros j t Ht.
      assert (Hj : (j < length dsts)%nat) by (apply nth_error_Some; congruence).
      destruct (nth_error srcs (j / k)) as [s|] eqn:Es.
      * exists s. split; [reflexivity|]. apply zip_nth; [|exact Ht]. rewrite repeat_each_nth by lia. exact Es.
      * exfalso. apply nth_error_None in Es.
        assert (j / k < length srcs)%nat; [|lia]. apply Nat.div_lt_upper_bound; nia.
Qed.

(* lengths that neither agree nor divide (or without allow_multi) are rejected *)
Theorem pair_up_rejects srcs dsts multi :
  length srcs <> length dsts ->
  (multi = false \/ length srcs = 0%nat \/ length dsts = 0%nat \/
   (Z.of_nat (length srcs) mod Z.of_nat (length dsts) <> 0 /\ Z.of_nat (length dsts) mod Z.of_nat (length srcs) <> 0)) ->
  exists e, pair_up srcs dsts multi = Err e.
Proof.
  intros Hne Hc. unfold pair_up. cbv zeta.
  destruct (Z.of_nat (length srcs) =? Z.of_nat (length dsts)) eqn:E1; [lia|].
  match goal with |- context [if ?c then _ else _] => destruct c eqn:E2 end.
  - exfalso. apply andb_true_iff in E2. destruct E2 as (E2 & E5). apply andb_true_iff in E2. destruct E2 as (E2 & E4).
    apply andb_true_iff in E2. destruct E2 as (E2 & E3).
    destruct Hc as [->|[H0|[H0|(H1 & H2)]]]; [discriminate|lia|lia|lia].
  - match goal with |- context [if ?c then _ else _] => destruct c eqn:E3 end; [|eauto].
    exfalso. apply andb_true_iff in E3. destruct E3 as (E3 & E6). apply andb_true_iff in E3. destruct E3 as (E3 & E5).
    apply andb_true_iff in E3. destruct E3 as (E3 & E4).
    destruct Hc as [->|[H0|[H0|(H1 & H2)]]]; [discriminate|lia|lia|lia].
Qed.

(* ------------------------------------------------------------------ the links of an auto-connected array *)
From FV Require Import BuildProofs Netlist Compile.

Definition array_links (name : string) (ij : Z * Z) : list edge :=
  let '(i, j) := ij in
  let nm := full_name name [i; j] in
  (if 0 <? i then [mk_link nm (full_name name [i - 1; j]) (Some dir_W) (Some dir_E);
                   mk_link (full_name name [i - 1; j]) nm (Some dir_E) (Some dir_W)] else []) ++
  (if 0 <? j then [mk_link nm (full_name name [i; j - 1]) (Some dir_S) (Some dir_N);
                   mk_link (full_name name [i; j - 1]) nm (Some dir_N) (Some dir_S)] else []).

Definition grid_idx (m n : Z) : list (Z * Z) := flat_map (fun i => map (fun j => (i, j)) (zrange0 n)) (zrange0 m).

Lemma array_node_edges name t desc n g ij g' :
  add_array_node name t desc true n g ij = Ok g' -> g_edges g' = g_edges g ++ array_links name ij.
Proof.
  unfold add_array_node, array_links. destruct ij as [i j]. intros H. inv_bind H. rewrite !andb_true_r in *.
  unfold add_node in E. destruct (has_node g _); [discriminate|]. inversion E; subst a; clear E. cbn [g_edges] in *.
  assert (H1 : g_edges a0 = g_edges g ++ (if 0 <? i then [mk_link (full_name name [i; j]) (full_name name [i - 1; j]) (Some dir_W) (Some dir_E);
                   mk_link (full_name name [i - 1; j]) (full_name name [i; j]) (Some dir_E) (Some dir_W)] else [])).
  { destruct (0 <? i).
    - inv_bind E0. apply add_edge_spec in E. destruct E as (-> & _). apply add_edge_spec in E0. destruct E0 as (-> & _).
      cbn. rewrite <- app_assoc. reflexivity.
    - inversion E0; subst. cbn. rewrite app_nil_r. reflexivity. }
  destruct (0 <? j).
  - inv_bind H. apply add_edge_spec in E. destruct E as (-> & _). apply add_edge_spec in H. destruct H as (-> & _).
    cbn. rewrite H1, <- !app_assoc. reflexivity.
  - inversion H; subst. rewrite H1, app_nil_r. reflexivity.
Qed.

Theorem array_edges g name m n t desc g' :
  add_nodes_as_array g name [m; n] t desc true = Ok g' ->
  g_edges g' = g_edges g ++ flat_map (array_links name) (grid_idx m n).
Proof.
  unfold add_nodes_as_array, grid_idx. generalize (flat_map (fun i => map (fun j => (i, j)) (zrange0 n)) (zrange0 m)).
  intros l. revert g. induction l as [|ij l IH]; intros g H; cbn [foldM] in H.
  - inversion H; subst. cbn. rewrite app_nil_r. reflexivity.
  - inv_bind H. apply array_node_edges in E. rewrite (IH _ H), E. cbn [flat_map]. rewrite <- app_assoc. reflexivity.
Qed.

(* which links that is: exactly the four-neighbour links of the m x n grid, on compass ports *)
Theorem mesh_links_iff name m n e :
  In e (flat_map (array_links name) (grid_idx m n)) <->
  exists i j, 0 <= i < m /\ 0 <= j < n /\
    ((0 < i /\ (e = mk_link (full_name name [i; j]) (full_name name [i - 1; j]) (Some dir_W) (Some dir_E) \/
                e = mk_link (full_name name [i - 1; j]) (full_name name [i; j]) (Some dir_E) (Some dir_W))) \/
     (0 < j /\ (e = mk_link (full_name name [i; j]) (full_name name [i; j - 1]) (Some dir_S) (Some dir_N) \/
                e = mk_link (full_name name [i; j - 1]) (full_name name [i; j]) (Some dir_N) (Some dir_S)))).
Proof.
  rewrite in_flat_map. unfold grid_idx. split.
  - intros ([i j] & Hij & He). apply in_flat_map in Hij. destruct Hij as (i' & Hi & Hj).
    apply in_map_iff in Hj. destruct Hj as (j' & Heq & Hj). inversion Heq; subst i' j'.
    apply zrange0_In in Hi. apply zrange0_In in Hj. exists i, j. split; [exact Hi|]. split; [exact Hj|].
    unfold array_links in He. apply in_app_iff in He. destruct He as [He|He].
    + destruct (0 <? i) eqn:Ei; [|destruct He]. left. split; [lia|]. cbn in He. intuition.
    + destruct (0 <? j) eqn:Ej; [|destruct He]. right. split; [lia|]. cbn in He. intuition.
  - intros (i & j & Hi & Hj & He). exists (i, j). split.
    + apply in_flat_map. exists i. split; [apply zrange0_In; exact Hi|]. apply in_map. apply zrange0_In. exact Hj.
    + unfold array_links. apply in_app_iff. destruct He as [(H0 & He)|(H0 & He)].
      * left. destruct (0 <? i) eqn:Ei; [|lia]. cbn. intuition.
      * right. destruct (0 <? j) eqn:Ej; [|lia]. cbn. intuition.
Qed.

(* C04 frame, mesh links: the neighbour on a compass port sits one step in that direction *)
Theorem mesh_links_frame name m n e :
  In e (flat_map (array_links name) (grid_idx m n)) ->
  exists i j k dx dy, e_src e = full_name name [i; j] /\ e_src_dir e = Some k /\ to_coords k = Ok (dx, dy) /\
                      e_dst e = full_name name [i + dx; j + dy] /\ 0 <= k < 4 /\
                      exists k', e_dst_dir e = Some k' /\ to_coords k' = Ok (- dx, - dy).
Proof.
  intros H. apply mesh_links_iff in H. destruct H as (i & j & Hi & Hj & [(H0 & [-> | ->]) | (H0 & [-> | ->])]).
  - exists i, j, dir_W, (-1), 0. cbn. replace (i + -1) with (i - 1) by lia. replace (j + 0) with j by lia.
    repeat split; try reflexivity; try (cbv; congruence). exists dir_E. split; reflexivity.
  - exists (i - 1), j, dir_E, 1, 0. cbn. replace (i - 1 + 1) with i by lia. replace (j + 0) with j by lia.
    repeat split; try reflexivity; try (cbv; congruence). exists dir_W. split; reflexivity.
  - exists i, j, dir_S, 0, (-1). cbn. replace (i + 0) with i by lia. replace (j + -1) with (j - 1) by lia.
    repeat split; try reflexivity; try (cbv; congruence). exists dir_N. split; reflexivity.
  - exists i, (j - 1), dir_N, 0, 1. cbn. replace (i + 0) with i by lia. replace (j - 1 + 1) with j by lia.
    repeat split; try reflexivity; try (cbv; congruence). exists dir_S. split; reflexivity.
Qed.

(* C04 frame, interfaces: under XY an interface's coordinate is its router's coordinate plus the step of
   the direction named on the link between them (the direction is the router's port, C05) *)
Lemma ni_xy_scan_spec g ni : forall succs x y, ni_xy_scan g ni succs = Ok (Some (x, y)) ->
  exists s rx ry k dx dy, In s succs /\ rt_coord_of g s = Some (rx, ry) /\ to_coords k = Ok (dx, dy) /\
    x = rx + dx /\ y = ry + dy /\
    ((exists e1, find_edge g ni s = Some e1 /\ e_dst_dir e1 = Some k) \/
     (exists e2, find_edge g s ni = Some e2 /\ e_src_dir e2 = Some k)).
Proof.
  induction succs as [|s rest IH]; intros x y H; cbn [ni_xy_scan] in H; [discriminate|].
  destruct (rt_coord_of g s) as [[rx ry]|] eqn:Ec.
  - destruct (find_edge g ni s) as [e1|] eqn:F1; [|discriminate].
    destruct (e_dst_dir e1) as [dd|] eqn:D1.
    + inv_bind H. inversion H; subst. destruct a as [dx dy]. exists s, rx, ry, dd, dx, dy. cbn. 
      repeat split; auto. left. eauto.
    + destruct (find_edge g s ni) as [e2|] eqn:F2; [|discriminate].
      destruct (e_src_dir e2) as [sd|] eqn:D2.
      * inv_bind H. inversion H; subst. destruct a as [dx dy]. exists s, rx, ry, sd, dx, dy. cbn.
        repeat split; auto. right. eauto.
      * destruct (IH _ _ H) as (s' & rx' & ry' & k & dx & dy & Hin & R). exists s', rx', ry', k, dx, dy. cbn. tauto.
  - destruct (IH _ _ H) as (s' & rx' & ry' & k & dx & dy & Hin & R). exists s', rx', ry', k, dx, dy. cbn. tauto.
Qed.

Theorem ni_xy_frame g d ni uid x y p :
  d_algo d = XY -> ni_id g d ni uid = Ok (IdXY x y p) ->
  p = 0 /\ exists s rx ry k dx dy, In s (successors g (n_name ni)) /\ rt_coord_of g s = Some (rx, ry) /\
    to_coords k = Ok (dx, dy) /\ x = rx + dx /\ y = ry + dy /\
    ((exists e1, find_edge g (n_name ni) s = Some e1 /\ e_dst_dir e1 = Some k) \/
     (exists e2, find_edge g s (n_name ni) = Some e2 /\ e_src_dir e2 = Some k)).
Proof.
  intros Ha H. unfold ni_id in H. rewrite Ha in H. inv_bind H. destruct a as [[x' y']|]; [|discriminate].
  inversion H; subst. split; [reflexivity|]. eapply ni_xy_scan_spec; eauto.
Qed.
