(* ConnProofs.v — C06 on the model: how create_connection pairs its source and destination selections.
   Equal lengths pair position by position; with allow_multi and k*|dsts| = |srcs| (k >= 2) destination j
   is paired with the contiguous group srcs[j*k .. (j+1)*k); symmetrically for |dsts| = k*|srcs|;
   every other combination of lengths is rejected. *)
From FV Require Import Base Graph Desc Build ModelBase.
From Coq Require Import ZifyBool.

Lemma repeat_each_length {A} k (l : list A) : length (repeat_each k l) = (k * length l)%nat.
Proof. induction l as [|x xs IH]; cbn [repeat_each length]; [lia|]. rewrite app_length, repeat_length, IH. lia. Qed.

Lemma nth_error_repeat {A} (x : A) k j : (j < k)%nat -> nth_error (repeat x k) j = Some x.
Proof. revert j. induction k as [|k IH]; intros [|j] H; cbn; try lia; auto. apply IH. lia. Qed.

(* element j of repeat_each k l is element j / k of l *)
Lemma repeat_each_nth {A} k (l : list A) : (0 < k)%nat ->
  forall j, nth_error (repeat_each k l) j = nth_error l (j / k).
Proof.
  intros Hk. induction l as [|x xs IH]; intros j; cbn [repeat_each].
  - destruct j; destruct (_ / k)%nat; reflexivity.
  - destruct (Nat.lt_ge_cases j k) as [Hlt|Hge].
    + rewrite nth_error_app1 by (rewrite repeat_length; exact Hlt).
      rewrite Nat.div_small by exact Hlt. cbn. apply nth_error_repeat. exact Hlt.
    + rewrite nth_error_app2 by (rewrite repeat_length; exact Hge). rewrite repeat_length, IH.
      replace (j / k)%nat with (S ((j - k) / k)); [reflexivity|].
      replace j with ((j - k) + 1 * k)%nat at 2 by lia. rewrite Nat.div_add by lia. lia.
Qed.

Lemma zip_nth {A B} (l : list A) (m : list B) j a b :
  nth_error l j = Some a -> nth_error m j = Some b -> nth_error (zip l m) j = Some (a, b).
Proof.
  revert m j. induction l as [|x xs IH]; intros [|y ys] [|j]; cbn; try discriminate.
  - intros H1 H2. inversion H1; inversion H2; reflexivity.
  - apply IH.
Qed.
Lemma zip_length {A B} (l : list A) (m : list B) : length (zip l m) = Nat.min (length l) (length m).
Proof. revert m. induction l as [|x xs IH]; intros [|y ys]; cbn; auto. Qed.

Theorem pair_up_spec srcs dsts multi pairs : pair_up srcs dsts multi = Ok pairs ->
  let ns := length srcs in let nd := length dsts in
  (ns = nd /\ pairs = zip srcs dsts) \/
  (multi = true /\ exists k, (2 <= k)%nat /\ ns = (k * nd)%nat /\ length pairs = ns /\
     forall j s, nth_error srcs j = Some s -> exists t, nth_error dsts (j / k) = Some t /\ nth_error pairs j = Some (s, t)) \/
  (multi = true /\ exists k, (2 <= k)%nat /\ nd = (k * ns)%nat /\ length pairs = nd /\
     forall j t, nth_error dsts j = Some t -> exists s, nth_error srcs (j / k) = Some s /\ nth_error pairs j = Some (s, t)).
Proof.
  unfold pair_up. cbv zeta.
  destruct (Z.of_nat (length srcs) =? Z.of_nat (length dsts)) eqn:E1.
  - intros H. inversion H; subst. left. split; [lia|reflexivity].
  - destruct (multi && (0 <? Z.of_nat (length dsts)) && (Z.of_nat (length srcs) mod Z.of_nat (length dsts) =? 0) &&
              (Z.of_nat (length dsts) <? Z.of_nat (length srcs))) eqn:E2.
    + intros H. inversion H; subst; clear H. right. left.
      apply andb_true_iff in E2. destruct E2 as (E2 & E5). apply andb_true_iff in E2. destruct E2 as (E2 & E4).
      apply andb_true_iff in E2. destruct E2 as (E2 & E3). split; [exact E2|].
      set (k := Z.to_nat (Z.of_nat (length srcs) / Z.of_nat (length dsts))).
      assert (Hk : Z.of_nat (length srcs) = Z.of_nat k * Z.of_nat (length dsts)).
      { unfold k. rewrite Z2Nat.id by (apply Z.div_pos; lia).
        pose proof (Z.div_mod (Z.of_nat (length srcs)) (Z.of_nat (length dsts))). lia. }
      exists k. assert (2 <= k)%nat by nia. split; [assumption|]. split; [nia|].
      assert (Hlen : length (repeat_each k dsts) = length srcs) by (rewrite repeat_each_length; nia).
      split; [rewrite zip_length, Hlen; lia|].
      intros j s Hs.
      assert (Hj : (j < length srcs)%nat) by (apply nth_error_Some; congruence).
      destruct (nth_error dsts (j / k)) as [t|] eqn:Et.
      * exists t. split; [reflexivity|]. apply zip_nth; [exact Hs|]. rewrite repeat_each_nth by lia. exact Et.
      * exfalso. apply nth_error_None in Et.
        assert (j / k < length dsts)%nat; [|lia]. apply Nat.div_lt_upper_bound; nia.
    + destruct (multi && (0 <? Z.of_nat (length srcs)) && (Z.of_nat (length dsts) mod Z.of_nat (length srcs) =? 0) &&
                (Z.of_nat (length srcs) <? Z.of_nat (length dsts))) eqn:E3; [|discriminate].
      intros H. inversion H; subst; clear H. right. right.
      apply andb_true_iff in E3. destruct E3 as (E3 & E6). apply andb_true_iff in E3. destruct E3 as (E3 & E5).
      apply andb_true_iff in E3. destruct E3 as (E3 & E4). split; [exact E3|].
      set (k := Z.to_nat (Z.of_nat (length dsts) / Z.of_nat (length srcs))).
      assert (Hk : Z.of_nat (length dsts) = Z.of_nat k * Z.of_nat (length srcs)).
      { unfold k. rewrite Z2Nat.id by (apply Z.div_pos; lia).
        pose proof (Z.div_mod (Z.of_nat (length dsts)) (Z.of_nat (length srcs))). lia. }
      exists k. assert (2 <= k)%nat by nia. split; [assumption|]. split; [nia|].
      assert (Hlen : length (repeat_each k srcs) = length dsts) by (rewrite repeat_each_length; nia).
      split; [rewrite zip_length, Hlen; lia|].
      intros j t Ht.
      assert (Hj : (j < length dsts)%nat) by (apply nth_error_Some; congruence).
      destruct (nth_error srcs (j / k)) as [s|] eqn:Es.
      * exists s. split; [reflexivity|]. apply zip_nth; [|exact Ht]. rewrite repeat_each_nth by lia. exact Es.
      * exfalso. apply nth_error_None in Es.
        assert (j / k < length srcs)%nat; [|lia]. apply Nat.div_lt_upper_bound; nia.
Qed.

(* lengths that neither agree nor divide (or without allow_multi) are rejected *)
Theorem pair_up_rejects srcs dsts multi :
  length srcs <> length dsts ->
  (multi = false \/ length srcs = 0%nat \/ length dsts = 0%nat \/
   (Z.of_nat (length srcs) mod Z.of_nat (length dsts) <> 0 /\ Z.of_nat (length dsts) mod Z.of_nat (length srcs) <> 0)) ->
  exists e, pair_up srcs dsts multi = Err e.
Proof.
  intros Hne Hc. unfold pair_up. cbv zeta.
  destruct (Z.of_nat (length srcs) =? Z.of_nat (length dsts)) eqn:E1; [lia|].
  match goal with |- context [if ?c then _ else _] => destruct c eqn:E2 end.
  - exfalso. apply andb_true_iff in E2. destruct E2 as (E2 & E5). apply andb_true_iff in E2. destruct E2 as (E2 & E4).
    apply andb_true_iff in E2. destruct E2 as (E2 & E3).
    destruct Hc as [->|[H0|[H0|(H1 & H2)]]]; [discriminate|lia|lia|lia].
  - match goal with |- context [if ?c then _ else _] => destruct c eqn:E3 end; [|eauto].
    exfalso. apply andb_true_iff in E3. destruct E3 as (E3 & E6). apply andb_true_iff in E3. destruct E3 as (E3 & E5).
    apply andb_true_iff in E3. destruct E3 as (E3 & E4).
    destruct Hc as [->|[H0|[H0|(H1 & H2)]]]; [discriminate|lia|lia|lia].
Qed.

(* ------------------------------------------------------------------ the links of an auto-connected array *)
From FV Require Import BuildProofs Netlist Compile.

Definition array_links (name : string) (ij : Z * Z) : list edge :=
  let '(i, j) := ij in
  let nm := full_name name [i; j] in
  (if 0 <? i then [mk_link nm (full_name name [i - 1; j]) (Some dir_W) (Some dir_E);
                   mk_link (full_name name [i - 1; j]) nm (Some dir_E) (Some dir_W)] else []) ++
  (if 0 <? j then [mk_link nm (full_name name [i; j - 1]) (Some dir_S) (Some dir_N);
                   mk_link (full_name name [i; j - 1]) nm (Some dir_N) (Some dir_S)] else []).

Definition grid_idx (m n : Z) : list (Z * Z) := flat_map (fun i => map (fun j => (i, j)) (zrange0 n)) (zrange0 m).

Lemma array_node_edges name t desc n g ij g' :
  add_array_node name t desc true n g ij = Ok g' -> g_edges g' = g_edges g ++ array_links name ij.
Proof.
  unfold add_array_node, array_links. destruct ij as [i j]. intros H. inv_bind H. rewrite !andb_true_r in *.
  unfold add_node in E. destruct (has_node g _); [discriminate|]. inversion E; subst a; clear E. cbn [g_edges] in *.
  assert (H1 : g_edges a0 = g_edges g ++ (if 0 <? i then [mk_link (full_name name [i; j]) (full_name name [i - 1; j]) (Some dir_W) (Some dir_E);
                   mk_link (full_name name [i - 1; j]) (full_name name [i; j]) (Some dir_E) (Some dir_W)] else [])).
  { destruct (0 <? i).
    - inv_bind E0. apply add_edge_spec in E. destruct E as (-> & _). apply add_edge_spec in E0. destruct E0 as (-> & _).
      cbn. rewrite <- app_assoc. reflexivity.
    - inversion E0; subst. cbn. rewrite app_nil_r. reflexivity. }
  destruct (0 <? j).
  - inv_bind H. apply add_edge_spec in E. destruct E as (-> & _). apply add_edge_spec in H. destruct H as (-> & _).
    cbn. rewrite H1, <- !app_assoc. reflexivity.
  - inversion H; subst. rewrite H1, app_nil_r. reflexivity.
Qed.

Theorem array_edges g name m n t desc g' :
  add_nodes_as_array g name [m; n] t desc true = Ok g' ->
  g_edges g' = g_edges g ++ flat_map (array_links name) (grid_idx m n).
Proof.
  unfold add_nodes_as_array, grid_idx. generalize (flat_map (fun i => map (fun j => (i, j)) (zrange0 n)) (zrange0 m)).
  intros l. revert g. induction l as [|ij l IH]; intros g H; cbn [foldM] in H.
  - inversion H; subst. cbn. rewrite app_nil_r. reflexivity.
  - inv_bind H. apply array_node_edges in E. rewrite (IH _ H), E. cbn [flat_map]. rewrite <- app_assoc. reflexivity.
Qed.

(* which links that is: exactly the four-neighbour links of the m x n grid, on compass ports *)
Theorem mesh_links_iff name m n e :
  In e (flat_map (array_links name) (grid_idx m n)) <->
  exists i j, 0 <= i < m /\ 0 <= j < n /\
    ((0 < i /\ (e = mk_link (full_name name [i; j]) (full_name name [i - 1; j]) (Some dir_W) (Some dir_E) \/
                e = mk_link (full_name name [i - 1; j]) (full_name name [i; j]) (Some dir_E) (Some dir_W))) \/
     (0 < j /\ (e = mk_link (full_name name [i; j]) (full_name name [i; j - 1]) (Some dir_S) (Some dir_N) \/
                e = mk_link (full_name name [i; j - 1]) (full_name name [i; j]) (Some dir_N) (Some dir_S)))).
Proof.
  rewrite in_flat_map. unfold grid_idx. split.
  - intros ([i j] & Hij & He). apply in_flat_map in Hij. destruct Hij as (i' & Hi & Hj).
    apply in_map_iff in Hj. destruct Hj as (j' & Heq & Hj). inversion Heq; subst i' j'.
    apply zrange0_In in Hi. apply zrange0_In in Hj. exists i, j. split; [exact Hi|]. split; [exact Hj|].
    unfold array_links in He. apply in_app_iff in He. destruct He as [He|He].
    + destruct (0 <? i) eqn:Ei; [|destruct He]. left. split; [lia|]. cbn in He. intuition.
    + destruct (0 <? j) eqn:Ej; [|destruct He]. right. split; [lia|]. cbn in He. intuition.
  - intros (i & j & Hi & Hj & He). exists (i, j). split.
    + apply in_flat_map. exists i. split; [apply zrange0_In; exact Hi|]. apply in_map. apply zrange0_In. exact Hj.
    + unfold array_links. apply in_app_iff. destruct He as [(H0 & He)|(H0 & He)].
      * left. destruct (0 <? i) eqn:Ei; [|lia]. cbn. intuition.
      * right. destruct (0 <? j) eqn:Ej; [|lia]. cbn. intuition.
Qed.

(* C04 frame, mesh links: the neighbour on a compass port sits one step in that direction *)
Theorem mesh_links_frame name m n e :
  In e (flat_map (array_links name) (grid_idx m n)) ->
  exists i j k dx dy, e_src e = full_name name [i; j] /\ e_src_dir e = Some k /\ to_coords k = Ok (dx, dy) /\
                      e_dst e = full_name name [i + dx; j + dy] /\ 0 <= k < 4 /\
                      exists k', e_dst_dir e = Some k' /\ to_coords k' = Ok (- dx, - dy).
Proof.
  intros H. apply mesh_links_iff in H. destruct H as (i & j & Hi & Hj & [(H0 & [-> | ->]) | (H0 & [-> | ->])]).
  - exists i, j, dir_W, (-1), 0. cbn. replace (i + -1) with (i - 1) by lia. replace (j + 0) with j by lia.
    repeat split; try reflexivity; try (cbv; congruence). exists dir_E. split; reflexivity.
  - exists (i - 1), j, dir_E, 1, 0. cbn. replace (i - 1 + 1) with i by lia. replace (j + 0) with j by lia.
    repeat split; try reflexivity; try (cbv; congruence). exists dir_W. split; reflexivity.
  - exists i, j, dir_S, 0, (-1). cbn. replace (i + 0) with i by lia. replace (j + -1) with (j - 1) by lia.
    repeat split; try reflexivity; try (cbv; congruence). exists dir_N. split; reflexivity.
  - exists i, (j - 1), dir_N, 0, 1. cbn. replace (i + 0) with i by lia. replace (j - 1 + 1) with j by lia.
    repeat split; try reflexivity; try (cbv; congruence). exists dir_S. split; reflexivity.
Qed.

(* C04 frame, interfaces: under XY an interface's coordinate is its router's coordinate plus the step of
   the direction named on the link between them (the direction is the router's port, C05) *)
Lemma ni_xy_scan_spec g ni : forall succs x y, ni_xy_scan g ni succs = Ok (Some (x, y)) ->
  exists s rx ry k dx dy, In s succs /\ rt_coord_of g s = Some (rx, ry) /\ to_coords k = Ok (dx, dy) /\
    x = rx + dx /\ y = ry + dy /\
    ((exists e1, find_edge g ni s = Some e1 /\ e_dst_dir e1 = Some k) \/
     (exists e2, find_edge g s ni = Some e2 /\ e_src_dir e2 = Some k)).
Proof.
  induction succs as [|s rest IH]; intros x y H; cbn [ni_xy_scan] in H; [discriminate|].
  destruct (rt_coord_of g s) as [[rx ry]|] eqn:Ec.
  - destruct (find_edge g ni s) as [e1|] eqn:F1; [|discriminate].
    destruct (e_dst_dir e1) as [dd|] eqn:D1.
    + inv_bind H. inversion H; subst. destruct a as [dx dy]. exists s, rx, ry, dd, dx, dy. cbn. 
      repeat split; auto. left. eauto.
    + destruct (find_edge g s ni) as [e2|] eqn:F2; [|discriminate].
      destruct (e_src_dir e2) as [sd|] eqn:D2.
      * inv_bind H. inversion H; subst. destruct a as [dx dy]. exists s, rx, ry, sd, dx, dy. cbn.
        repeat split; auto. right. eauto.
      * destruct (IH _ _ H) as (s' & rx' & ry' & k & dx & dy & Hin & R). exists s', rx', ry', k, dx, dy. cbn. tauto.
  - destruct (IH _ _ H) as (s' & rx' & ry' & k & dx & dy & Hin & R). exists s', rx', ry', k, dx, dy. cbn. tauto.
Qed.

Theorem ni_xy_frame g d ni uid x y p :
  d_algo d = XY -> ni_id g d ni uid = Ok (IdXY x y p) ->
  p = 0 /\ exists s rx ry k dx dy, In s (successors g (n_name ni)) /\ rt_coord_of g s = Some (rx, ry) /\
    to_coords k = Ok (dx, dy) /\ x = rx + dx /\ y = ry + dy /\
    ((exists e1, find_edge g (n_name ni) s = Some e1 /\ e_dst_dir e1 = Some k) \/
     (exists e2, find_edge g s (n_name ni) = Some e2 /\ e_src_dir e2 = Some k)).
Proof.
  intros Ha H. unfold ni_id in H. rewrite Ha in H. inv_bind H. destruct a as [[x' y']|]; [|discriminate].
  inversion H; subst. split; [reflexivity|]. eapply ni_xy_scan_spec; eauto.
Qed.

(* ------------------------------------------------------------------ the links of a router tree *)
Fixpoint tree_links (connect : bool) (parent : string) (tree : list Z) (lvl : Z) : list edge :=
  match tree with
  | [] => []
  | t :: rest =>
      flat_map (fun i => let nm := idx_name parent i in
                  (if connect && (0 <? lvl) then [mk_link parent nm None None; mk_link nm parent None None] else []) ++
                  tree_links connect nm rest (lvl + 1)) (zrange0 t)
  end.

Theorem tree_edges connect tree : forall g parent lvl desc g',
  add_nodes_as_tree g parent tree lvl desc connect = Ok g' -> g_edges g' = g_edges g ++ tree_links connect parent tree lvl.
Proof.
  induction tree as [|t rest IH]; intros g parent lvl desc g' H; cbn [add_nodes_as_tree tree_links] in *.
  - inversion H; subst. rewrite app_nil_r. reflexivity.
  - revert g H. generalize (zrange0 t). intros l. induction l as [|i l IHl]; intros g H; cbn [foldM flat_map] in *.
    + inversion H; subst. rewrite app_nil_r. reflexivity.
    + inv_bind H. rewrite (IHl _ H). clear IHl H. inv_bind E.
      apply IH in E. rewrite E. clear E.
      unfold add_node in E0. destruct (has_node g _); [discriminate|]. inversion E0; subst a0; clear E0. cbn [g_edges] in E1.
      destruct (connect && (0 <? lvl)).
      * inv_bind E1. apply add_edge_spec in E. destruct E as (-> & _). apply add_edge_spec in E1. destruct E1 as (-> & _).
        cbn [g_edges]. rewrite <- !app_assoc. reflexivity.
      * inversion E1; subst. cbn [g_edges app]. rewrite <- app_assoc. reflexivity.
Qed.

(* ------------------------------------------------------------------ the links of a connection *)
Definition conn_links (sd dd : option Z) (pairs : list (string * string)) : list edge :=
  flat_map (fun p => [mk_link (fst p) (snd p) sd dd; mk_link (snd p) (fst p) dd sd]) pairs.

Lemma conn_fold_edges sd dd : forall pairs g g',
  foldM (fun g p => do g <- add_edge g (mk_link (fst p) (snd p) sd dd); add_edge g (mk_link (snd p) (fst p) dd sd)) pairs g = Ok g' ->
  g_edges g' = g_edges g ++ conn_links sd dd pairs /\ g_nodes g' = g_nodes g.
Proof.
  induction pairs as [|p ps IH]; intros g g' H; cbn [foldM conn_links flat_map] in *.
  - inversion H; subst. rewrite app_nil_r. auto.
  - inv_bind H. destruct (IH _ _ H) as (I1 & I2). inv_bind E. apply add_edge_spec in E0. destruct E0 as (-> & _).
    apply add_edge_spec in E. destruct E as (-> & _). cbn [g_edges g_nodes] in *. rewrite I1, I2, <- !app_assoc. auto.
Qed.

(* what a connection adds: both directions of every pair of its selections, with the named directions *)
Theorem connection_edges d g c g' : create_connection d g c = Ok g' ->
  exists srcs dsts srcs' dsts' pairs,
    select_nodes g (c_src c) (c_src_idx c) (c_src_range c) (c_src_lvl c) = Ok srcs /\
    select_nodes g (c_dst c) (c_dst_idx c) (c_dst_range c) (c_dst_lvl c) = Ok dsts /\
    mapM (ni_of_ep g d) srcs = Ok srcs' /\ mapM (ni_of_ep g d) dsts = Ok dsts' /\
    pair_up srcs' dsts' (c_multi c) = Ok pairs /\
    g_edges g' = g_edges g ++ conn_links (c_src_dir c) (c_dst_dir c) pairs /\ g_nodes g' = g_nodes g.
Proof.
  unfold create_connection. intros H. inv_bind H. destruct (conn_fold_edges _ _ _ _ _ H) as (H1 & H2).
  exists a, a0, a1, a2, a3. auto 10.
Qed.

(* ------------------------------------------------------------------ the links of a whole description *)
Definition router_links (r : rt_desc) : list edge :=
  match rt_array r, rt_tree r with
  | Some [m; n], None => if rt_auto r then flat_map (array_links (rt_name r)) (grid_idx m n) else []
  | None, Some tree => tree_links (rt_auto r) (rt_name r) tree 0
  | _, _ => []
  end.

Lemma router_edges g r g' : create_router g r = Ok g' -> g_edges g' = g_edges g ++ router_links r.
Proof.
  unfold create_router, router_links. destruct (rt_array r) as [[|m [|n [|x xs]]]|], (rt_tree r) as [tree|]; try discriminate; intros H.
  - destruct (rt_auto r).
    + apply array_edges in H. exact H.
    + apply array_nodes in H. destruct H as (_ & H). rewrite H, app_nil_r. reflexivity.
  - apply tree_edges in H. exact H.
  - unfold add_node in H. destruct (has_node g _); [discriminate|]. inversion H; subst. cbn. rewrite app_nil_r. reflexivity.
Qed.

Definition link_edges_of (g : graph) : list edge := filter is_link (g_edges g).

Lemma prot_fold_links (f : list Z -> string * string) idxs : forall g g',
  foldM (fun g i => add_edge g (prot_edge (fst (f i)) (snd (f i)))) idxs g = Ok g' -> link_edges_of g' = link_edges_of g.
Proof.
  induction idxs as [|i l IH]; intros g g' H; cbn [foldM] in H; [inversion H; reflexivity|].
  inv_bind H. apply add_edge_spec in E. destruct E as (-> & _). rewrite (IH _ _ H).
  unfold link_edges_of. cbn [g_edges]. rewrite filter_app. cbn. rewrite app_nil_r. reflexivity.
Qed.

Lemma endpoint_links g e g' : create_endpoint g e = Ok g' -> link_edges_of g' = link_edges_of g.
Proof.
  unfold create_endpoint. cbv zeta. destruct (ep_array e) as [arr|]; intros H; inv_bind H.
  - apply array_nodes in E. apply array_nodes in E0. destruct E as (_ & E). destruct E0 as (_ & E0).
    assert (L1 : link_edges_of a1 = link_edges_of a0).
    { destruct (ep_is_sbr e); [|inversion E1; reflexivity].
      apply (prot_fold_links (fun i => (full_name (ep_name e +++ "_ni") i, full_name (ep_name e) i))) in E1. exact E1. }
    assert (L2 : link_edges_of g' = link_edges_of a1).
    { destruct (ep_is_mgr e); [|inversion H; reflexivity].
      apply (prot_fold_links (fun i => (full_name (ep_name e) i, full_name (ep_name e +++ "_ni") i))) in H. exact H. }
    rewrite L2, L1. unfold link_edges_of. rewrite E0, E. reflexivity.
  - unfold add_node in E, E0. destruct (has_node g _); [discriminate|]. inversion E; subst a; clear E.
    cbn in E0. destruct (has_node _ _); [discriminate|]. inversion E0; subst a0; clear E0.
    assert (L1 : link_edges_of a1 = link_edges_of g).
    { destruct (ep_is_sbr e); [|inversion E1; subst; reflexivity].
      apply add_edge_spec in E1. destruct E1 as (-> & _). unfold link_edges_of. cbn. rewrite filter_app. cbn. rewrite app_nil_r. reflexivity. }
    destruct (ep_is_mgr e); [|inversion H; subst; exact L1].
    apply add_edge_spec in H. destruct H as (-> & _). unfold link_edges_of in *. cbn [g_edges]. rewrite filter_app. cbn. rewrite app_nil_r. exact L1.
Qed.

(* node selection depends on the node set only *)
Lemma select_nodes_nodes g1 g2 name idx rng lvl : g_nodes g1 = g_nodes g2 ->
  select_nodes g1 name idx rng lvl = select_nodes g2 name idx rng lvl.
Proof.
  intros H. unfold select_nodes.
  assert (Hh : has_node g1 = has_node g2) by (unfold has_node, find_node; rewrite H; reflexivity).
  destruct idx, rng, lvl; try reflexivity.
  - rewrite Hh. reflexivity.
  - rewrite Hh. reflexivity.
  - unfold nodes_from_lvl. rewrite H. reflexivity.
Qed.
Lemma ni_of_ep_nodes g1 g2 d n : g_nodes g1 = g_nodes g2 -> ni_of_ep g1 d n = ni_of_ep g2 d n.
Proof. intros H. unfold ni_of_ep, find_node. rewrite H. reflexivity. Qed.

(* the links one connection entry denotes, evaluated on the node set of graph g *)
Definition conn_spec (d : desc) (g : graph) (c : conn_desc) : res (list edge) :=
  do srcs <- select_nodes g (c_src c) (c_src_idx c) (c_src_range c) (c_src_lvl c);
  do dsts <- select_nodes g (c_dst c) (c_dst_idx c) (c_dst_range c) (c_dst_lvl c);
  do srcs <- mapM (ni_of_ep g d) srcs;
  do dsts <- mapM (ni_of_ep g d) dsts;
  do pairs <- pair_up srcs dsts (c_multi c);
  Ok (conn_links (c_src_dir c) (c_dst_dir c) pairs).

Lemma mapM_ext {A B} (f f' : A -> res B) l : (forall x, f x = f' x) -> mapM f l = mapM f' l.
Proof. intros H. induction l as [|x xs IH]; cbn; [reflexivity|]. rewrite H, IH. reflexivity. Qed.

Lemma conn_spec_nodes d g1 g2 c : g_nodes g1 = g_nodes g2 -> conn_spec d g1 c = conn_spec d g2 c.
Proof.
  intros H. unfold conn_spec. rewrite !(select_nodes_nodes g1 g2) by exact H.
  destruct (select_nodes g2 (c_src c) _ _ _); [|reflexivity]. cbn [bind].
  destruct (select_nodes g2 (c_dst c) _ _ _); [|reflexivity]. cbn [bind].
  rewrite !(mapM_ext (ni_of_ep g1 d) (ni_of_ep g2 d)) by (intros; apply ni_of_ep_nodes; exact H). reflexivity.
Qed.

Lemma link_edges_app g l : link_edges_of {| g_nodes := g_nodes g; g_edges := g_edges g ++ l |} = link_edges_of g ++ filter is_link l.
Proof. unfold link_edges_of. cbn. apply filter_app. Qed.

Lemma conn_links_are_links sd dd pairs : filter is_link (conn_links sd dd pairs) = conn_links sd dd pairs.
Proof. unfold conn_links. induction pairs as [|p ps IH]; cbn; [reflexivity|]. rewrite IH. reflexivity. Qed.

Lemma connection_links d g c g' : create_connection d g c = Ok g' ->
  exists L, conn_spec d g c = Ok L /\ link_edges_of g' = link_edges_of g ++ L /\ g_nodes g' = g_nodes g.
Proof.
  intros H. destruct (connection_edges d g c g' H) as (srcs & dsts & srcs' & dsts' & pairs & S1 & S2 & M1 & M2 & P & He & Hn).
  exists (conn_links (c_src_dir c) (c_dst_dir c) pairs). split; [|split; [|exact Hn]].
  - unfold conn_spec. rewrite S1, S2. cbn [bind]. rewrite M1, M2. cbn [bind]. rewrite P. reflexivity.
  - unfold link_edges_of. rewrite He, filter_app, conn_links_are_links. reflexivity.
Qed.

Lemma router_links_are_links r : filter is_link (router_links r) = router_links r.
Proof.
  assert (Hall : forall e, In e (router_links r) -> is_link e = true).
  { unfold router_links. destruct (rt_array r) as [[|m [|n [|x xs]]]|], (rt_tree r) as [tree|]; try (intros e []).
    - destruct (rt_auto r); [|intros e []]. intros e He. apply mesh_links_iff in He.
      destruct He as (i & j & _ & _ & [(_ & [-> | ->])|(_ & [-> | ->])]); reflexivity.
    - generalize (rt_name r) 0. generalize (rt_auto r). intros cn. induction tree as [|t rest IH]; intros p lvl e He; [destruct He|].
      cbn [tree_links] in He. apply in_flat_map in He. destruct He as (i & _ & He). apply in_app_iff in He. destruct He as [He|He].
      + destruct (cn && (0 <? lvl)); [|destruct He]. destruct He as [<-|[<-|[]]]; reflexivity.
      + eapply IH; eauto. }
  induction (router_links r) as [|e l IH]; [reflexivity|]. cbn. rewrite (Hall e (or_introl eq_refl)). f_equal.
  apply IH. intros x Hx. apply Hall. right. exact Hx.
Qed.

(* C06: the link edges of every built graph are exactly the links of its router descriptors followed by the
   links of its connection entries (both directions of every selected pair), in declaration order *)
Theorem build_links d g : build d = Ok g ->
  exists Ls, Forall2 (fun c L => conn_spec d g c = Ok L) (d_conns d) Ls /\
             link_edges_of g = flat_map router_links (d_rts d) ++ concat Ls.
Proof.
  unfold build. intros H. inv_bind H.
  (* routers *)
  assert (R : forall l g0 g1, foldM create_router l g0 = Ok g1 -> link_edges_of g1 = link_edges_of g0 ++ flat_map router_links l).
  { induction l as [|r l IH]; intros g0 g1 Hf; cbn [foldM flat_map] in *; [inversion Hf; subst; rewrite app_nil_r; reflexivity|].
    inv_bind Hf. rewrite (IH _ _ Hf). apply router_edges in E1. unfold link_edges_of at 1. rewrite E1, filter_app, router_links_are_links, <- app_assoc. reflexivity. }
  (* endpoints *)
  assert (P : forall l g0 g1, foldM create_endpoint l g0 = Ok g1 -> link_edges_of g1 = link_edges_of g0).
  { induction l as [|e l IH]; intros g0 g1 Hf; cbn [foldM] in *; [inversion Hf; reflexivity|].
    inv_bind Hf. rewrite (IH _ _ Hf). apply endpoint_links in E1. exact E1. }
  (* connections: the node set stays that of the graph after the endpoints *)
  assert (C : forall l g0 g1, foldM (create_connection d) l g0 = Ok g1 ->
            g_nodes g1 = g_nodes g0 /\ exists Ls, Forall2 (fun c L => conn_spec d g0 c = Ok L) l Ls /\ link_edges_of g1 = link_edges_of g0 ++ concat Ls).
  { induction l as [|c l IH]; intros g0 g1 Hf; cbn [foldM] in *.
    - inversion Hf; subst. split; [reflexivity|]. exists []. split; [constructor|cbn; rewrite app_nil_r; reflexivity].
    - inv_bind Hf. destruct (connection_links _ _ _ _ E1) as (L & HL & Hle & Hn).
      destruct (IH _ _ Hf) as (Hn' & Ls & HF & Hlinks). split; [congruence|].
      exists (L :: Ls). split.
      + constructor; [exact HL|]. clear -HF Hn. induction HF as [|c' L' l' Ls' Hc _ IHF]; constructor; [|exact IHF].
        rewrite <- Hc. apply conn_spec_nodes. congruence.
      + rewrite Hlinks, Hle. cbn [concat]. rewrite <- app_assoc. reflexivity. }
  destruct (C _ _ _ H) as (Hn & Ls & HF & Hl).
  exists Ls. split.
  - clear -HF Hn. induction HF as [|c' L' l' Ls' Hc _ IHF]; constructor; [|exact IHF]. rewrite <- Hc. apply conn_spec_nodes. exact Hn.
  - rewrite Hl, (P _ _ _ E0), (R _ _ _ E). reflexivity.
Qed.
