(* JobsProofs.v — C19: every transfer gen_mesh_traffic writes lies inside one mapped range. *)
From FV Require Import Base Jobs.
From FVGen Require Import JobsFacts.
From Coq Require Import ZifyBool.
Ltac Zify.zify_post_hook ::= Z.to_euclidean_division_equations.

Definition samap := list (string * (Z * Z)).
Definition inside (sam : samap) (a len : Z) : Prop :=
  exists r, In r sam /\ fst (snd r) <= a /\ a + len <= snd (snd r).
Definition windowb (sam : samap) (a : Z) : bool :=
  existsb (fun r => (fst (snd r) <=? a) && (a + MEM_SIZE <=? snd (snd r))) sam.

Lemma window_inside sam a len : windowb sam a = true -> 0 <= len <= MEM_SIZE -> inside sam a len.
Proof.
  unfold windowb, inside. intros H Hl. apply existsb_exists in H. destruct H as (r & Hr & Hb).
  exists r. split; [exact Hr|]. lia.
Qed.

Definition zrange (n : Z) : list Z := map Z.of_nat (seq 0 (Z.to_nat n)).
Lemma zrange_In n x : 0 <= x < n -> In x (zrange n).
Proof.
  intros H. unfold zrange. apply in_map_iff. exists (Z.to_nat x). split; [lia|]. apply in_seq. lia.
Qed.
Definition tiles : list (Z * Z) := flat_map (fun x => map (fun y => (x, y)) (zrange NUM_Y)) (zrange NUM_X).
Lemma tiles_In x y : 0 <= x < NUM_X -> 0 <= y < NUM_Y -> In (x, y) tiles.
Proof.
  intros Hx Hy. unfold tiles. apply in_flat_map. exists x. split; [apply zrange_In; exact Hx|].
  apply in_map. apply zrange_In. exact Hy.
Qed.

Definition tile_ok (sam : samap) (t : string) (xy : Z * Z) (rd : bool) (o : Z * Z) : bool :=
  match accesses t (fst xy) (snd xy) rd (fst o) (snd o) with
  | Ok (acc, (local, _)) => windowb sam local && forallb (fun e => windowb sam (fst e)) acc
  | Err _ => false
  end.
Definition c19_check (sam : samap) : bool :=
  forallb (fun t => forallb (fun xy => forallb (fun rd => forallb (fun o => tile_ok sam t xy rd o) tiles)
                                               [true; false]) tiles) traffic_type_names.

Lemma len_of_bounds k L : 0 < NUM_Y -> 0 <= L -> 0 <= len_of k L <= L.
Proof.
  intros Hy HL. assert (H2 : 0 <= L / 2 <= L) by lia.
  destruct k; cbn [len_of]; try lia.
  split; [apply Z.div_pos; lia|].
  etransitivity; [|exact (proj2 H2)]. apply Z.div_le_upper_bound; [exact Hy|]. nia.
Qed.

Theorem c19_check_sound sam :
  0 < NUM_Y -> c19_check sam = true ->
  forall t x y rd ox oy L js,
    In t traffic_type_names -> 0 <= x < NUM_X -> 0 <= y < NUM_Y -> 0 <= ox < NUM_X -> 0 <= oy < NUM_Y ->
    0 <= L <= MEM_SIZE ->
    jobs t x y rd ox oy L = Ok js ->
    forall len src dst, In (len, (src, dst)) js -> inside sam src len /\ inside sam dst len.
Proof.
  intros Hy Hc t x y rd ox oy L js Ht Hx Hyy Hox Hoy HL Hj len src dst Hin.
  unfold c19_check in Hc. rewrite forallb_forall in Hc. specialize (Hc t Ht).
  rewrite forallb_forall in Hc. specialize (Hc (x, y) (tiles_In x y Hx Hyy)).
  rewrite forallb_forall in Hc. assert (Hrd : In rd [true; false]) by (destruct rd; cbn; auto).
  specialize (Hc rd Hrd). rewrite forallb_forall in Hc. specialize (Hc (ox, oy) (tiles_In ox oy Hox Hoy)).
  unfold tile_ok in Hc. cbn [fst snd] in Hc. unfold jobs, bind in Hj.
  destruct (accesses t x y rd ox oy) as [[acc [local zeroed]]|e]; [|discriminate].
  apply andb_true_iff in Hc. destruct Hc as (Hl & Ha). rewrite forallb_forall in Ha.
  inversion Hj; subst js; clear Hj. apply in_map_iff in Hin. destruct Hin as ([ext [is_rd k]] & E & Hin).
  specialize (Ha _ Hin). cbn [fst] in Ha.
  assert (Hlen : 0 <= len <= MEM_SIZE).
  { inversion E; subst. destruct zeroed; [lia|]. pose proof (len_of_bounds k L Hy (proj1 HL)). lia. }
  inversion E; subst. destruct is_rd; inversion H1; subst; split; apply window_inside; auto.
Qed.

(* names: tile (x,y)'s local address is the start of cluster (x,y)'s rule; channel c of hbm rule c *)
Definition rule_start (sam : samap) (name : string) : option Z :=
  option_map (fun r => fst (snd r)) (find (fun r => str_eqb (fst r) name) sam).
Definition cluster_rule (x y : Z) : string := "ClusterX" +++ Z_to_string x +++ "Y" +++ Z_to_string y +++ "SamIdx".
Definition hbm_rule (c : Z) : string := "Hbm" +++ Z_to_string c +++ "SamIdx".
Definition c19_names (sam : samap) : bool :=
  forallb (fun xy => match rule_start sam (cluster_rule (fst xy) (snd xy)) with
                     | Some s => s =? xy_base (fst xy) (snd xy)
                     | None => false
                     end) tiles &&
  forallb (fun c => match rule_start sam (hbm_rule c) with
                    | Some s => s =? hbm_base c
                    | None => false
                    end) (zrange NUM_Y).

Theorem c19_names_sound sam : c19_names sam = true ->
  (forall x y, 0 <= x < NUM_X -> 0 <= y < NUM_Y -> rule_start sam (cluster_rule x y) = Some (xy_base x y)) /\
  (forall c, 0 <= c < NUM_Y -> rule_start sam (hbm_rule c) = Some (hbm_base c)).
Proof.
  unfold c19_names. rewrite andb_true_iff, !forallb_forall. intros (H1 & H2). split.
  - intros x y Hx Hy. specialize (H1 (x, y) (tiles_In x y Hx Hy)). cbn [fst snd] in H1.
    destruct (rule_start sam (cluster_rule x y)); [|discriminate]. f_equal. lia.
  - intros c Hc. specialize (H2 c (zrange_In _ _ Hc)).
    destruct (rule_start sam (hbm_rule c)); [|discriminate]. f_equal. lia.
Qed.
