(* Netlist.v — the abstract netlist: what an emitted package + top module denote.
   It is produced two ways: by the SV reader from the files the real floogen wrote, and by the
   model (Emit.v).  The certified checkers and the hardware semantics (Hw.v) are stated over it.
   Definitions only. *)
From FV Require Import Base RouteMap.

Inductive idv := IdN (n : Z) | IdXY (x y p : Z).
Definition idv_eqb (a b : idv) : bool :=
  match a, b with
  | IdN n, IdN m => n =? m
  | IdXY x y p, IdXY x' y' p' => (x =? x') && (y =? y') && (p =? p')
  | _, _ => false
  end.

(* what is assigned to one slot of a router input array *)
Inductive src := SSig (s : string) | SZero.

Record sam_rule := {
  sr_idx : idv; sr_start : Z; sr_end : Z;
  sr_lw_s : Z; sr_dig_s : Z;      (* literal width and number of hex digits of start_addr *)
  sr_lw_e : Z; sr_dig_e : Z;
}.

Record word := { w_width : Z; w_digits : Z; w_val : Z }.   (* one route-table literal *)

Record ni_inst := {
  ni_name : string; ni_module : string; ni_id : idv;
  ni_row : option string;                       (* RoutingTables[<Enum>] *)
  ni_flags : list (string * (bool * bool));     (* ChimneyCfg* -> (EnSbrPort, EnMgrPort) *)
  ni_axi : list (string * string);              (* AXI port -> bound expression ('0 / "" = open) *)
  ni_req_o : string; ni_rsp_i : string; ni_req_i : string; ni_rsp_o : string;
  ni_wide_o : option string; ni_wide_i : option string;
}.

Record rt_inst := {
  r_name : string; r_module : string; r_id : option idv; r_algo : string;
  r_nroutes : Z; r_nin : Z; r_nout : Z;
  (* bound table: name bound to id_route_map_i, value of <Name>NumRules, .NumAddrRules, width of the
     idx field of its rule struct, rules *)
  r_map : option (string * (Z * (Z * (Z * list rule))));
  r_req_in : list (list src); r_rsp_out : list (list string);
  r_req_out : list (list string); r_rsp_in : list (list src);
  r_wide_in : list (list src); r_wide_out : list (list string);
}.

Record port_decl := { pd_dir : string; pd_type : string; pd_dims : list Z; pd_name : string }.

Record netlist := {
  nl_name : string;
  n_nw : bool;                                   (* narrow-wide network *)
  n_algo : string;                               (* RouteCfg.RouteAlgo *)
  n_ep_enum : Z * list (string * Z);             (* width, members (incl. NumEndpoints) *)
  n_sam_enum : Z * list (string * Z);
  n_id_bits : option Z;                          (* id_t = logic[b-1:0]  (ID / SRC) *)
  n_xy_bits : option (Z * (Z * Z));              (* x_bits, y_bits, port_id bits (XY) *)
  n_route_bits : option Z;                       (* route_t width (SRC) *)
  n_aw : Z;                                      (* width of sam_rule_t.start_addr *)
  n_sam_num : Z;                                 (* SamNumRules *)
  n_sam : list sam_rule;                         (* textual order: element 0 is Sam[N-1] *)
  n_tables : option (list (list word));          (* RoutingTables, textual order *)
  n_route_cfg : list (string * string);
  n_axi_cfgs : list (string * list (string * Z));
  n_ports : list port_decl;
  n_links : list (string * string);              (* declared link signals: type, name *)
  n_nis : list ni_inst;
  n_rts : list rt_inst;
}.

(* ---------------------------------------------------------------- wire format: decoding *)
Definition sx_idv (x : sx) : res idv :=
  match x with
  | L [a; b; c] => do a <- sx_Z a; do b <- sx_Z b; do c <- sx_Z c; Ok (IdXY a b c)
  | _ => do n <- sx_Z x; Ok (IdN n)
  end.
Definition sx_src (x : sx) : res src :=
  match x with A "'0" => Ok SZero | A s => Ok (SSig s) | _ => Err "src expected" end.
Definition sx_kv {T} (f : sx -> res T) (x : sx) : res (string * T) :=
  match x with L [A k; v] => do v <- f v; Ok (k, v) | _ => Err "(key value) expected" end.

Definition sx_sam_rule (x : sx) : res sam_rule :=
  match x with
  | L [i; s; e; ls; ds; le; de] =>
      do i <- sx_idv i; do s <- sx_Z s; do e <- sx_Z e; do ls <- sx_Z ls; do ds <- sx_Z ds;
      do le <- sx_Z le; do de <- sx_Z de;
      Ok {| sr_idx := i; sr_start := s; sr_end := e; sr_lw_s := ls; sr_dig_s := ds;
            sr_lw_e := le; sr_dig_e := de |}
  | _ => Err "sam rule expected"
  end.
Definition sx_word (x : sx) : res word :=
  match x with
  | L [w; d; v] => do w <- sx_Z w; do d <- sx_Z d; do v <- sx_Z v;
                   Ok {| w_width := w; w_digits := d; w_val := v |}
  | _ => Err "word expected"
  end.
Definition sx_flag (x : sx) : res (string * (bool * bool)) :=
  match x with
  | L [A k; s; m] => do s <- sx_bool s; do m <- sx_bool m; Ok (k, (s, m))
  | _ => Err "flag expected"
  end.
Definition sx_enum (x : sx) : res (Z * list (string * Z)) :=
  match x with
  | L [w; ms] => do w <- sx_Z w; do ms <- sx_listof (sx_kv sx_Z) ms; Ok (w, ms)
  | _ => Err "enum expected"
  end.

Definition sx_ni (x : sx) : res ni_inst :=
  do f <- sx_list x;
  do name <- bind (sx_get "name" f) sx_str; do md <- bind (sx_get "module" f) sx_str;
  do id <- bind (sx_get "id" f) sx_idv; do row <- bind (sx_get "row" f) (sx_opt sx_str);
  do fl <- bind (sx_get "flags" f) (sx_listof sx_flag);
  do ax <- bind (sx_get "axi" f) (sx_listof (sx_kv sx_str));
  do ro <- bind (sx_get "req_o" f) sx_str; do ri <- bind (sx_get "rsp_i" f) sx_str;
  do qi <- bind (sx_get "req_i" f) sx_str; do qo <- bind (sx_get "rsp_o" f) sx_str;
  do wo <- bind (sx_get "wide_o" f) (sx_opt sx_str); do wi <- bind (sx_get "wide_i" f) (sx_opt sx_str);
  Ok {| ni_name := name; ni_module := md; ni_id := id; ni_row := row; ni_flags := fl; ni_axi := ax;
        ni_req_o := ro; ni_rsp_i := ri; ni_req_i := qi; ni_rsp_o := qo; ni_wide_o := wo; ni_wide_i := wi |}.

Definition sx_map (x : sx) : res (string * (Z * (Z * (Z * list rule)))) :=
  match x with
  | L [A nm; n1; n2; iw; rs] =>
      do n1 <- sx_Z n1; do n2 <- sx_Z n2; do iw <- sx_Z iw; do rs <- sx_listof rule_of_sx rs;
      Ok (nm, (n1, (n2, (iw, rs))))
  | _ => Err "router map expected"
  end.

Definition sx_rt (x : sx) : res rt_inst :=
  do f <- sx_list x;
  do name <- bind (sx_get "name" f) sx_str; do md <- bind (sx_get "module" f) sx_str;
  do id <- bind (sx_get "id" f) (sx_opt sx_idv); do al <- bind (sx_get "algo" f) sx_str;
  do nr <- bind (sx_get "nroutes" f) sx_Z; do ni <- bind (sx_get "nin" f) sx_Z;
  do no <- bind (sx_get "nout" f) sx_Z; do mp <- bind (sx_get "map" f) (sx_opt sx_map);
  do a1 <- bind (sx_get "req_in" f) (sx_listof (sx_listof sx_src));
  do a2 <- bind (sx_get "rsp_out" f) (sx_listof (sx_listof sx_str));
  do a3 <- bind (sx_get "req_out" f) (sx_listof (sx_listof sx_str));
  do a4 <- bind (sx_get "rsp_in" f) (sx_listof (sx_listof sx_src));
  do a5 <- bind (sx_get "wide_in" f) (sx_listof (sx_listof sx_src));
  do a6 <- bind (sx_get "wide_out" f) (sx_listof (sx_listof sx_str));
  Ok {| r_name := name; r_module := md; r_id := id; r_algo := al; r_nroutes := nr; r_nin := ni;
        r_nout := no; r_map := mp; r_req_in := a1; r_rsp_out := a2; r_req_out := a3; r_rsp_in := a4;
        r_wide_in := a5; r_wide_out := a6 |}.

Definition sx_port (x : sx) : res port_decl :=
  match x with
  | L [A d; A t; ds; A n] => do ds <- sx_listof sx_Z ds;
                             Ok {| pd_dir := d; pd_type := t; pd_dims := ds; pd_name := n |}
  | _ => Err "port expected"
  end.

Definition sx_xy (x : sx) : res (Z * (Z * Z)) :=
  match x with
  | L [a; b; c] => do a <- sx_Z a; do b <- sx_Z b; do c <- sx_Z c; Ok (a, (b, c))
  | _ => Err "xy bits expected"
  end.

Definition sx_netlist (x : sx) : res netlist :=
  do f <- sx_list x;
  do name <- bind (sx_get "name" f) sx_str; do nw <- bind (sx_get "nw" f) sx_bool;
  do algo <- bind (sx_get "algo" f) sx_str;
  do ee <- bind (sx_get "ep_enum" f) sx_enum; do se <- bind (sx_get "sam_enum" f) sx_enum;
  do ib <- bind (sx_get "id_bits" f) (sx_opt sx_Z); do xb <- bind (sx_get "xy_bits" f) (sx_opt sx_xy);
  do rb <- bind (sx_get "route_bits" f) (sx_opt sx_Z); do aw <- bind (sx_get "aw" f) sx_Z;
  do sn <- bind (sx_get "sam_num" f) sx_Z; do sam <- bind (sx_get "sam" f) (sx_listof sx_sam_rule);
  do tb <- bind (sx_get "tables" f) (sx_opt (sx_listof (sx_listof sx_word)));
  do rc <- bind (sx_get "route_cfg" f) (sx_listof (sx_kv sx_str));
  do ac <- bind (sx_get "axi_cfgs" f) (sx_listof (sx_kv (sx_listof (sx_kv sx_Z))));
  do ps <- bind (sx_get "ports" f) (sx_listof sx_port);
  do ls <- bind (sx_get "links" f) (sx_listof (sx_kv sx_str));
  do nis <- bind (sx_get "nis" f) (sx_listof sx_ni); do rts <- bind (sx_get "rts" f) (sx_listof sx_rt);
  Ok {| nl_name := name; n_nw := nw; n_algo := algo; n_ep_enum := ee; n_sam_enum := se; n_id_bits := ib;
        n_xy_bits := xb; n_route_bits := rb; n_aw := aw; n_sam_num := sn; n_sam := sam; n_tables := tb;
        n_route_cfg := rc; n_axi_cfgs := ac; n_ports := ps; n_links := ls; n_nis := nis; n_rts := rts |}.

(* ---------------------------------------------------------------- wire format: encoding *)
Definition xidv (i : idv) : sx :=
  match i with IdN n => xZ n | IdXY x y p => L [xZ x; xZ y; xZ p] end.
Definition xsrc (s : src) : sx := match s with SSig s => A s | SZero => A "'0" end.
Definition xkv {T} (f : T -> sx) (p : string * T) : sx := L [A (fst p); f (snd p)].
Definition fld (k : string) (v : sx) : sx := L [A k; v].

Definition x_sam_rule (r : sam_rule) : sx :=
  L [xidv (sr_idx r); xZ (sr_start r); xZ (sr_end r); xZ (sr_lw_s r); xZ (sr_dig_s r);
     xZ (sr_lw_e r); xZ (sr_dig_e r)].
Definition x_word (w : word) : sx := L [xZ (w_width w); xZ (w_digits w); xZ (w_val w)].
Definition x_enum (e : Z * list (string * Z)) : sx := L [xZ (fst e); xL (xkv xZ) (snd e)].
Definition x_ni (n : ni_inst) : sx :=
  L [fld "name" (A (ni_name n)); fld "module" (A (ni_module n)); fld "id" (xidv (ni_id n));
     fld "row" (xO xS (ni_row n));
     fld "flags" (xL (fun p => L [A (fst p); xB (fst (snd p)); xB (snd (snd p))]) (ni_flags n));
     fld "axi" (xL (xkv xS) (ni_axi n));
     fld "req_o" (A (ni_req_o n)); fld "rsp_i" (A (ni_rsp_i n)); fld "req_i" (A (ni_req_i n));
     fld "rsp_o" (A (ni_rsp_o n)); fld "wide_o" (xO xS (ni_wide_o n)); fld "wide_i" (xO xS (ni_wide_i n))].
Definition x_map (m : string * (Z * (Z * (Z * list rule)))) : sx :=
  L [A (fst m); xZ (fst (snd m)); xZ (fst (snd (snd m))); xZ (fst (snd (snd (snd m))));
     xL rule_to_sx (snd (snd (snd (snd m))))].
Definition x_rt (r : rt_inst) : sx :=
  L [fld "name" (A (r_name r)); fld "module" (A (r_module r)); fld "id" (xO xidv (r_id r));
     fld "algo" (A (r_algo r)); fld "nroutes" (xZ (r_nroutes r)); fld "nin" (xZ (r_nin r));
     fld "nout" (xZ (r_nout r)); fld "map" (xO x_map (r_map r));
     fld "req_in" (xL (xL xsrc) (r_req_in r)); fld "rsp_out" (xL (xL xS) (r_rsp_out r));
     fld "req_out" (xL (xL xS) (r_req_out r)); fld "rsp_in" (xL (xL xsrc) (r_rsp_in r));
     fld "wide_in" (xL (xL xsrc) (r_wide_in r)); fld "wide_out" (xL (xL xS) (r_wide_out r))].
Definition x_port (p : port_decl) : sx :=
  L [A (pd_dir p); A (pd_type p); xL xZ (pd_dims p); A (pd_name p)].
Definition x_netlist (n : netlist) : sx :=
  L [fld "name" (A (nl_name n)); fld "nw" (xB (n_nw n)); fld "algo" (A (n_algo n));
     fld "ep_enum" (x_enum (n_ep_enum n)); fld "sam_enum" (x_enum (n_sam_enum n));
     fld "id_bits" (xO xZ (n_id_bits n));
     fld "xy_bits" (xO (fun t => L [xZ (fst t); xZ (fst (snd t)); xZ (snd (snd t))]) (n_xy_bits n));
     fld "route_bits" (xO xZ (n_route_bits n)); fld "aw" (xZ (n_aw n));
     fld "sam_num" (xZ (n_sam_num n)); fld "sam" (xL x_sam_rule (n_sam n));
     fld "tables" (xO (xL (xL x_word)) (n_tables n));
     fld "route_cfg" (xL (xkv xS) (n_route_cfg n));
     fld "axi_cfgs" (xL (xkv (xL (xkv xZ))) (n_axi_cfgs n));
     fld "ports" (xL x_port (n_ports n)); fld "links" (xL (xkv xS) (n_links n));
     fld "nis" (xL x_ni (n_nis n)); fld "rts" (xL x_rt (n_rts n))].
