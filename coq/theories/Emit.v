(* Emit.v — what the two Mako templates and the render_* methods denote: compiled network + routing
   info -> abstract netlist (the same type the SV reader produces from the real files).
   Definitions only. *)
From FV Require Import Base AddrRange RouteMap Graph Desc Build Netlist Compile Routing.

(* ---------------------------------------------------------------- names (snake_to_camel is in Routing.v) *)
(* upper(): only ASCII letters matter *)
Fixpoint upper_str (s : string) : string :=
  match s with
  | EmptyString => EmptyString
  | String c r => let n := nat_of_ascii c in String (if is_lower n then ascii_of_nat (n - 32) else c) (upper_str r)
  end.

Definition req_name (l : link) : string := fst l +++ "_to_" +++ snd l +++ "_req".
Definition rsp_name (l : link) : string := snd l +++ "_to_" +++ fst l +++ "_rsp".
Definition wide_name (l : link) : string := fst l +++ "_to_" +++ snd l +++ "_wide".

(* ---------------------------------------------------------------- numbers *)
Fixpoint hexlen_fuel (fuel : nat) (v : Z) : Z :=
  match fuel with
  | O => 1
  | S f => if v <? 16 then 1 else 1 + hexlen_fuel f (v / 16)
  end.
Definition hexlen (v : Z) : Z := hexlen_fuel (Z.to_nat (Z.log2 (Z.max v 1) / 4 + 2)) v.
Definition hex_digits (aw v : Z) : Z := Z.max (cdiv aw 4) (hexlen v).

(* ---------------------------------------------------------------- protocols *)
Definition type_name (p : proto) : string :=
  match p_prefix p with Some pre => pre +++ "_" +++ p_name p | None => p_name p end.

Definition proto_dir (c : compiled) (p : proto) : option string := dir_get (p_name p) (c_dirs c).
Definition first_proto (c : compiled) (kind : option string) (dir : string) : option proto :=
  find (fun p => match proto_dir c p with
                 | Some d => str_eqb d dir &&
                             match kind with
                             | None => true
                             | Some k => match p_type p with Some t => str_eqb t k | None => false end
                             end
                 | None => false
                 end) (d_protos (c_desc c)).

Definition axi_cfg (name : string) (i o : proto) : string * list (string * Z) :=
  (name, [("AddrWidth", p_addr i); ("DataWidth", p_data i); ("UserWidth", p_user i);
          ("InIdWidth", p_id i); ("OutIdWidth", p_id o)]).

Definition bus_dims (b : bus) : list Z :=
  match b_array b with Some a => filter (fun x => negb (x =? 1)) a | None => [] end.
Definition bus_idx (b : bus) : string :=
  match b_idx b, b_array b with
  | Some idx, Some arr =>
      fold_left (fun acc p => if snd p =? 1 then acc else acc +++ "[" +++ Z_to_string (fst p) +++ "]") (zip idx arr) ""
  | _, _ => ""
  end.
Definition inv_dir (d : string) : string := if str_eqb d "output" then "input" else "output".
Definition dir_letter (d : string) : string := if str_eqb d "input" then "i" else "o".
Definition bus_ports (b : bus) : list port_decl :=
  let base := b_ep b +++ "_" +++ p_name (b_proto b) in
  [{| pd_dir := b_dir b; pd_type := type_name (b_proto b) +++ "_req_t"; pd_dims := bus_dims b;
      pd_name := base +++ "_req_" +++ dir_letter (b_dir b) |};
   {| pd_dir := inv_dir (b_dir b); pd_type := type_name (b_proto b) +++ "_rsp_t"; pd_dims := bus_dims b;
      pd_name := base +++ "_rsp_" +++ dir_letter (inv_dir (b_dir b)) |}].
Definition bus_req_port (b : bus) : string :=
  b_ep b +++ "_" +++ p_name (b_proto b) +++ "_req_" +++ dir_letter (b_dir b) +++ bus_idx b.
Definition bus_rsp_port (b : bus) : string :=
  b_ep b +++ "_" +++ p_name (b_proto b) +++ "_rsp_" +++ dir_letter (inv_dir (b_dir b)) +++ bus_idx b.

(* last bus of the wanted kind wins (compile_nis) *)
Definition pick_bus (nw : bool) (kind : string) (l : list bus) : option bus :=
  let sel := filter (fun b => negb nw || match p_type (b_proto b) with Some t => str_eqb t kind | None => false end) l in
  last (map Some sel) None.

Definition ni_bindings (prefix : string) (mgr sbr : option bus) : list (string * string) :=
  (match mgr with
   | Some b => [(prefix +++ "in_req_i", bus_req_port b); (prefix +++ "in_rsp_o", bus_rsp_port b)]
   | None => [(prefix +++ "in_req_i", "'0"); (prefix +++ "in_rsp_o", "open")]
   end) ++
  (match sbr with
   | Some b => [(prefix +++ "out_req_o", bus_req_port b); (prefix +++ "out_rsp_i", bus_rsp_port b)]
   | None => [(prefix +++ "out_req_o", "open"); (prefix +++ "out_rsp_i", "'0")]
   end).

(* ---------------------------------------------------------------- route words *)
(* value of the rendered word: first hop in the least significant bits *)
Fixpoint word_value (ps : list (Z * Z)) : Z :=
  match ps with
  | [] => 0
  | (p, b) :: rest => p + 2 ^ b * word_value rest
  end.

Definition algo_name (a : algo) : string :=
  match a with XY => "XYRouting" | ID => "IdTable" | SRC => "SourceRouting" end.

Definition desc_aw (d : desc) : Z := match d_protos d with p :: _ => p_addr p | [] => 0 end.
Definition ri_offset (ri : rinfo) : option (Z * Z) :=
  match ri_xy ri with Some (_, (_, (_, o))) => Some o | None => None end.

(* endpoint enumeration: sorted by uid (stable), then NumEndpoints; width clog2(max value + 1) *)
Definition emit_members (c : compiled) : list (string * Z) :=
  sort_by (fun a b => snd a <? snd b) (map (fun n => (snake_to_camel (enum_name n), cn_uid n)) (c_nis c)).
Definition emit_ep_enum (c : compiled) : Z * list (string * Z) :=
  let members := emit_members c in
  let nmem := Z.of_nat (length members) in
  (clog2 (Z.max (fold_left Z.max (map snd members) 0) nmem + 1), members ++ [("NumEndpoints", nmem)]).

Definition emit_sam_enum (sam : list (idv * (range * string))) : Z * list (string * Z) :=
  (clog2 (Z.of_nat (length sam)),
   map (fun p => (snake_to_camel (snd (snd (snd p))), Z.of_nat (fst p))) (enumerate (rev sam))).

Definition emit_sam_rule (aw : Z) (e : idv * (range * string)) : sam_rule :=
  let '(dst, (r, _)) := e in
  {| sr_idx := dst; sr_start := r_start r; sr_end := r_end r;
     sr_lw_s := aw; sr_dig_s := hex_digits aw (r_start r); sr_lw_e := aw; sr_dig_e := hex_digits aw (r_end r) |}.

Definition by_id_desc {T} (key : T -> Z) (l : list T) : list T := rev (sort_by (fun a b => key a <? key b) l).
Definition ni_key (n : cni) : Z := match cn_id n with IdN k => k | _ => 0 end.
Definition routes_of (ri : rinfo) (n : cni) : list (Z * option (list (Z * Z))) :=
  match find (fun p => str_eqb (fst p) (cn_name n)) (ri_routes ri) with Some (_, rs) => rs | None => [] end.
Definition emit_word (rb : Z) (r : Z * option (list (Z * Z))) : word :=
  {| w_width := rb; w_digits := rb; w_val := match snd r with Some ps => word_value ps | None => 0 end |}.
(* RoutingTables: rows by id descending, columns by id descending *)
Definition emit_tables (c : compiled) (ri : rinfo) : list (list word) :=
  map (fun n => map (emit_word (ri_route_bits ri)) (by_id_desc (fun r : Z * option (list (Z * Z)) => fst r) (routes_of ri n)))
      (by_id_desc ni_key (c_nis c)).

Definition emit_route_cfg (d : desc) (ri : rinfo) (nsam : Z) : list (string * string) :=
  let xab := match ri_xy ri with Some (xb, (_, (ab, _))) => (ab, ab + xb) | None => (0, 0) end in
  [("RouteAlgo", algo_name (d_algo d)); ("UseIdTable", "1'b1");
   ("XYAddrOffsetX", Z_to_string (fst xab)); ("XYAddrOffsetY", Z_to_string (snd xab));
   ("IdAddrOffset", "0"); ("NumSamRules", Z_to_string nsam);
   ("NumRoutes", match d_algo d with SRC => Z_to_string (ri_num_ep ri) | _ => "0" end)].

Definition emit_axi_cfgs (c : compiled) : res (list (string * list (string * Z))) :=
  if d_nw (c_desc c) then
    match first_proto c (Some "narrow") "input", first_proto c (Some "narrow") "output",
          first_proto c (Some "wide") "input", first_proto c (Some "wide") "output" with
    | Some ni_, Some no_, Some wi_, Some wo_ => Ok [axi_cfg "AxiCfgN" ni_ no_; axi_cfg "AxiCfgW" wi_ wo_]
    | _, _, _, _ => Err "AttributeError: a protocol direction is not used by any endpoint"
    end
  else
    match first_proto c None "input", first_proto c None "output" with
    | Some i_, Some o_ => Ok [axi_cfg "AxiCfg" i_ o_]
    | _, _ => Err "AttributeError: a protocol direction is not used by any endpoint"
    end.

(* ports: once per endpoint descriptor (first instance), manager buses then subordinate buses *)
Definition emit_ports (c : compiled) : list port_decl :=
  let firsts := fold_left (fun acc n => if existsb (fun m => str_eqb (ep_name (cn_ep m)) (ep_name (cn_ep n))) acc
                                        then acc else acc ++ [n]) (c_nis c) [] in
  map (fun nm => {| pd_dir := "input"; pd_type := "logic"; pd_dims := []; pd_name := nm |})
      ["clk_i"; "rst_ni"; "test_enable_i"] ++
  flat_map (fun n => flat_map bus_ports (cn_mgr_buses n) ++ flat_map bus_ports (cn_sbr_buses n)) firsts.

Definition emit_links (c : compiled) : list (string * string) :=
  flat_map (fun e => let l := (e_src e, e_dst e) in
              [("floo_req_t", req_name l); ("floo_rsp_t", rsp_name l)] ++
              (if d_nw (c_desc c) then [("floo_wide_t", wide_name l)] else []))
           (filter is_link (edges_view (c_graph c))).

Definition emit_ni (d : desc) (off : option (Z * Z)) (n : cni) : ni_inst :=
  let nw := d_nw d in
  let flags_axi :=
      if nw then
        let mn := pick_bus nw "narrow" (cn_mgr_buses n) in let sn := pick_bus nw "narrow" (cn_sbr_buses n) in
        let mw := pick_bus nw "wide" (cn_mgr_buses n) in let sw := pick_bus nw "wide" (cn_sbr_buses n) in
        ([("ChimneyCfgN", (is_some sn, is_some mn)); ("ChimneyCfgW", (is_some sw, is_some mw))],
         ni_bindings "axi_narrow_" mn sn ++ ni_bindings "axi_wide_" mw sw)
      else
        let mp := pick_bus nw "" (cn_mgr_buses n) in let sp_ := pick_bus nw "" (cn_sbr_buses n) in
        ([("ChimneyCfg", (is_some sp_, is_some mp))], ni_bindings "axi_" mp sp_) in
  {| ni_name := cn_name n; ni_module := if nw then "floo_nw_chimney" else "floo_axi_chimney";
     Netlist.ni_id := id_sub (cn_id n) off;
     ni_row := match d_algo d with SRC => Some (snake_to_camel (enum_name n)) | _ => None end;
     ni_flags := fst flags_axi; ni_axi := snd flags_axi;
     ni_req_o := req_name (cn_mgr_link n); ni_rsp_i := rsp_name (cn_mgr_link n);
     ni_req_i := req_name (cn_sbr_link n); ni_rsp_o := rsp_name (cn_sbr_link n);
     ni_wide_o := if nw then Some (wide_name (cn_mgr_link n)) else None;
     ni_wide_i := if nw then Some (wide_name (cn_sbr_link n)) else None |}.

Definition in_src (f : link -> string) (l : list (option link)) : list (list src) :=
  map (fun o : option link => match o with Some x => [SSig (f x)] | None => [SZero] end) l.
Definition out_sig (f : link -> string) (l : list (option link)) : list (list string) :=
  map (fun o : option link => match o with Some x => [f x] | None => [] end) l.

Definition emit_rt (d : desc) (ri : rinfo) (r : crt) : res rt_inst :=
  let nw := d_nw d in
  let off := ri_offset ri in
  do _ <- if existsb (fun o : option link => is_some o) (cr_in r) then Ok tt
          else Err "StopIteration: router without any incoming link";
  let table := match d_algo d with
               | ID => match find (fun p => str_eqb (fst p) (cr_name r)) (ri_tables ri) with
                       | Some (_, rules) =>
                           Some (snake_to_camel (cr_name r +++ "_map"),
                                 (Z.of_nat (length rules), (Z.of_nat (length rules), (32, rules))))
                       | None => None
                       end
               | _ => None
               end in
  Ok {| r_name := cr_name r; r_module := if nw then "floo_nw_router" else "floo_axi_router";
        r_id := match cr_id r with Some i => Some (id_sub i off) | None => None end;
        r_algo := algo_name (d_algo d); r_nroutes := cr_degree r;
        r_nin := Z.of_nat (length (cr_in r)); r_nout := Z.of_nat (length (cr_out r));
        r_map := table;
        r_req_in := in_src req_name (cr_in r); r_rsp_out := out_sig rsp_name (cr_in r);
        r_req_out := out_sig req_name (cr_out r); r_rsp_in := in_src rsp_name (cr_out r);
        r_wide_in := if nw then in_src wide_name (cr_in r) else [];
        r_wide_out := if nw then out_sig wide_name (cr_out r) else [] |}.

Definition emit (c : compiled) (ri : rinfo) : res netlist :=
  let d := c_desc c in
  let aw := desc_aw d in
  let sam := ri_sam ri in
  let nsam := Z.of_nat (length sam) in
  do _ <- if nsam =? 0 then Err "ValueError: max() of an empty address map" else Ok tt;
  do axi_cfgs <- emit_axi_cfgs c;
  do rts <- mapM (emit_rt d ri) (c_rts c);
  Ok {| nl_name := "floo_" +++ d_name d +++ "_noc"; n_nw := d_nw d; n_algo := algo_name (d_algo d);
        n_ep_enum := emit_ep_enum c; n_sam_enum := emit_sam_enum sam;
        n_id_bits := match d_algo d with XY => None | _ => Some (ri_id_bits ri) end;
        n_xy_bits := match ri_xy ri with Some (xb, (yb, _)) => Some (xb, (yb, 1)) | None => None end;
        n_route_bits := match d_algo d with SRC => Some (ri_route_bits ri) | _ => None end;
        n_aw := aw; n_sam_num := nsam; n_sam := map (emit_sam_rule aw) sam;
        n_tables := match d_algo d with SRC => Some (emit_tables c ri) | _ => None end;
        n_route_cfg := emit_route_cfg d ri nsam;
        n_axi_cfgs := axi_cfgs; n_ports := emit_ports c; n_links := emit_links c;
        n_nis := map (emit_ni d (ri_offset ri)) (c_nis c); n_rts := rts |}.

(* ---------------------------------------------------------------- the whole pipeline *)
Definition run (sp : oracle) (d : desc) : res netlist :=
  do g <- build d;
  do c <- compile d g;
  do ri <- gen_routing_info sp c;
  emit c ri.

Definition run_yaml (sp : oracle) (v : yv) : res netlist := do d <- parse_desc v; run sp d.
