(* Base.v — result monad, list utilities, s-expression wire format, number rendering.
   Model-side file: definitions only (plus a handful of one-line facts); proofs live elsewhere. *)
From Coq Require Export ZArith List Bool String Ascii Lia.
From Coq Require DecimalString Decimal DecimalZ.
Import DecimalString.
Export ListNotations.
Open Scope string_scope.
Open Scope list_scope.
Open Scope Z_scope.
(* String exports length/concat/... that shadow the list functions; pin the list versions *)
Notation length := List.length (only parsing).
Notation concat := List.concat (only parsing).
Infix "+++" := String.append (right associativity, at level 60) : string_scope.

(* ---------------------------------------------------------------- result monad *)
Inductive res (A : Type) : Type :=
| Ok (a : A)
| Err (e : string).
Arguments Ok {A} a.
Arguments Err {A} e.

Definition bind {A B} (r : res A) (f : A -> res B) : res B :=
  match r with Ok a => f a | Err e => Err e end.
Notation "'do' x <- r ; k" := (bind r (fun x => k)) (at level 200, x pattern, r at level 100, k at level 200).
Definition is_ok {A} (r : res A) : bool := match r with Ok _ => true | Err _ => false end.

Fixpoint mapM {A B} (f : A -> res B) (l : list A) : res (list B) :=
  match l with
  | [] => Ok []
  | x :: xs => do y <- f x; do ys <- mapM f xs; Ok (y :: ys)
  end.

Fixpoint foldM {A S} (f : S -> A -> res S) (l : list A) (s : S) : res S :=
  match l with
  | [] => Ok s
  | x :: xs => do s' <- f s x; foldM f xs s'
  end.

(* ---------------------------------------------------------------- small list utilities *)
Fixpoint index_of {A} (eqb : A -> A -> bool) (x : A) (l : list A) : option nat :=
  match l with
  | [] => None
  | y :: ys => if eqb x y then Some O else option_map S (index_of eqb x ys)
  end.

Fixpoint update_nth {A} (n : nat) (x : A) (l : list A) : list A :=
  match l, n with
  | [], _ => []
  | _ :: ys, O => x :: ys
  | y :: ys, S n' => y :: update_nth n' x ys
  end.

Fixpoint zip {A B} (l : list A) (m : list B) : list (A * B) :=
  match l, m with
  | x :: xs, y :: ys => (x, y) :: zip xs ys
  | _, _ => []
  end.

Fixpoint enumerate_from {A} (n : nat) (l : list A) : list (nat * A) :=
  match l with
  | [] => []
  | x :: xs => (n, x) :: enumerate_from (S n) xs
  end.
Definition enumerate {A} (l : list A) := enumerate_from 0 l.

Definition opt_default {A} (d : A) (o : option A) : A := match o with Some x => x | None => d end.
Definition is_some {A} (o : option A) : bool := match o with Some _ => true | None => false end.

Fixpoint repeat_each {A} (k : nat) (l : list A) : list A :=
  match l with
  | [] => []
  | x :: xs => repeat x k ++ repeat_each k xs
  end.

Fixpoint nodupb {A} (eqb : A -> A -> bool) (l : list A) : bool :=
  match l with
  | [] => true
  | x :: xs => negb (existsb (eqb x) xs) && nodupb eqb xs
  end.

(* stable insertion sort, `lt` strict: folding from the right, an element is inserted before the
   first element that is not strictly smaller, so equal elements keep their original order,
   which is what Python's stable `sorted` (using only `<`) does *)
Fixpoint insert_by {A} (lt : A -> A -> bool) (x : A) (l : list A) : list A :=
  match l with
  | [] => [x]
  | y :: ys => if lt y x then y :: insert_by lt x ys else x :: l
  end.
Definition sort_by {A} (lt : A -> A -> bool) (l : list A) : list A :=
  fold_right (insert_by lt) [] l.

Fixpoint list_eqb {T} (eqb : T -> T -> bool) (l m : list T) : bool :=
  match l, m with
  | [], [] => true
  | x :: xs, y :: ys => eqb x y && list_eqb eqb xs ys
  | _, _ => false
  end.

(* ceil(log2 n) for n >= 1, and 0 for n <= 1 *)
Definition clog2 (n : Z) : Z := if n <=? 1 then 0 else Z.log2_up n.
Definition cdiv (x y : Z) : Z := - ((- x) / y).

(* ---------------------------------------------------------------- strings *)
Definition str_eqb := String.eqb.
Fixpoint str_rev_app (s acc : string) : string :=
  match s with EmptyString => acc | String c r => str_rev_app r (String c acc) end.
Definition str_rev (s : string) := str_rev_app s EmptyString.

Definition Z_to_string (z : Z) : string := NilZero.string_of_int (Z.to_int z).
Definition Z_of_string (s : string) : option Z :=
  match s with
  | EmptyString => None
  | _ => option_map Z.of_int (NilZero.int_of_string s)
  end.
Definition nat_to_string (n : nat) : string := Z_to_string (Z.of_nat n).

Definition list_eqb_str := list_eqb String.eqb.
Definition list_eqb_Z := list_eqb Z.eqb.

(* free text inside an s-expression atom: blanks -> '~', parentheses -> brackets *)
Fixpoint sanitize (s : string) : string :=
  match s with
  | EmptyString => EmptyString
  | String c r =>
      String (if Ascii.eqb c " "%char then "~"%char
              else if Ascii.eqb c "("%char then "["%char
              else if Ascii.eqb c ")"%char then "]"%char else c) (sanitize r)
  end.

Fixpoint concat_with (sep : string) (l : list string) : string :=
  match l with
  | [] => EmptyString
  | [x] => x
  | x :: xs => x +++ sep +++ concat_with sep xs
  end.

(* ---------------------------------------------------------------- s-expressions *)
Inductive sx : Type :=
| A (s : string)
| L (l : list sx).

Definition is_space (c : ascii) : bool :=
  match c with
  | " "%char => true
  | "010"%char => true
  | "009"%char => true
  | "013"%char => true
  | _ => false
  end.

Inductive tok := TOpen | TClose | TAtom (s : string).

(* tokenizer: cur = reversed current atom *)
Fixpoint tokenize (s : string) (cur : string) : list tok :=
  let flush := match cur with EmptyString => [] | _ => [TAtom (str_rev cur)] end in
  match s with
  | EmptyString => flush
  | String c r =>
      if is_space c then flush ++ tokenize r EmptyString
      else if Ascii.eqb c "("%char then flush ++ TOpen :: tokenize r EmptyString
      else if Ascii.eqb c ")"%char then flush ++ TClose :: tokenize r EmptyString
      else tokenize r (String c cur)
  end.

(* stack of reversed partial lists; the bottom frame collects the top-level items *)
Fixpoint parse_toks (ts : list tok) (stack : list (list sx)) : res (list sx) :=
  match ts with
  | [] => match stack with
          | [top] => Ok (rev top)
          | _ => Err "sx: unbalanced (missing close)"
          end
  | TOpen :: r => parse_toks r ([] :: stack)
  | TClose :: r => match stack with
                   | top :: nxt :: st => parse_toks r ((L (rev top) :: nxt) :: st)
                   | _ => Err "sx: unbalanced (extra close)"
                   end
  | TAtom a :: r => match stack with
                    | top :: st => parse_toks r ((A a :: top) :: st)
                    | [] => Err "sx: internal"
                    end
  end.
Definition parse_sx (s : string) : res (list sx) := parse_toks (tokenize s EmptyString) [[]].

Fixpoint print_sx (x : sx) : string :=
  match x with
  | A s => s
  | L l => "(" +++ concat_with " " (map print_sx l) +++ ")"
  end.

(* decoders *)
Definition sx_Z (x : sx) : res Z :=
  match x with
  | A s => match Z_of_string s with Some z => Ok z | None => Err ("sx: not an integer: " +++ s) end
  | L _ => Err "sx: integer expected, list found"
  end.
Definition sx_nat (x : sx) : res nat :=
  do z <- sx_Z x; if z <? 0 then Err "sx: negative nat" else Ok (Z.to_nat z).
Definition sx_str (x : sx) : res string :=
  match x with A s => Ok s | L _ => Err "sx: atom expected" end.
Definition sx_list (x : sx) : res (list sx) :=
  match x with L l => Ok l | A s => Err ("sx: list expected, atom found: " +++ s) end.
Definition sx_bool (x : sx) : res bool :=
  match x with
  | A "#t" => Ok true
  | A "#f" => Ok false
  | _ => Err "sx: bool expected"
  end.
Definition sx_opt {T} (f : sx -> res T) (x : sx) : res (option T) :=
  match x with
  | A "#n" => Ok None
  | _ => do v <- f x; Ok (Some v)
  end.
Definition sx_listof {T} (f : sx -> res T) (x : sx) : res (list T) :=
  do l <- sx_list x; mapM f l.

(* encoders *)
Definition xZ (z : Z) : sx := A (Z_to_string z).
Definition xN (n : nat) : sx := A (nat_to_string n).
Definition xB (b : bool) : sx := A (if b then "#t" else "#f").
Definition xS (s : string) : sx := A s.
Definition xO {T} (f : T -> sx) (o : option T) : sx := match o with Some v => f v | None => A "#n" end.
Definition xL {T} (f : T -> sx) (l : list T) : sx := L (map f l).

(* association lookup in (key value) pair lists: (L [A k; v]) *)
Fixpoint sx_field (k : string) (l : list sx) : option sx :=
  match l with
  | [] => None
  | L [A k'; v] :: r => if str_eqb k k' then Some v else sx_field k r
  | _ :: r => sx_field k r
  end.
Definition sx_get (k : string) (l : list sx) : res sx :=
  match sx_field k l with Some v => Ok v | None => Err ("sx: missing field " +++ k) end.
