(* Examples.v — small concrete descriptions (as typed `desc` values) used for the non-vacuity
   examples beside the universal theorems: each is accepted by the model (run sp_nx d = Ok _). *)
From FV Require Import Base AddrRange Graph Desc Build Paths Compile Routing Netlist Emit.

Definition mkp (name : string) (ty : option string) (idw : Z) : proto :=
  {| p_name := name; p_type := ty; p_data := 64; p_addr := 48; p_id := idw; p_user := 1; p_prefix := None |}.
Definition axi_protos : list proto := [mkp "axi_in" None 4; mkp "axi_out" None 2].

Definition rspec (base size : Z) : range_spec :=
  {| rs_start := None; rs_end := None; rs_size := Some size; rs_base := Some base; rs_idx := None; rs_desc := None |}.
Definition mkep (name : string) (arr : option (list Z)) (rs : list range_spec) (m s : bool) : ep_desc :=
  {| ep_name := name; ep_array := arr; ep_ranges := rs;
     ep_mgr := if m then Some ["axi_in"] else None; ep_sbr := if s then Some ["axi_out"] else None |}.
Definition mkconn (src dst : string) : conn_desc :=
  {| c_src := src; c_dst := dst; c_src_range := None; c_dst_range := None; c_src_idx := None; c_dst_idx := None;
     c_src_lvl := None; c_dst_lvl := None; c_src_dir := None; c_dst_dir := None; c_multi := false |}.

(* a star of three endpoints, one of them manager-only, connections declared out of order *)
Definition ex_star (a : algo) : desc :=
  {| d_name := "star"; d_nw := false; d_algo := a; d_use_table := true; d_protos := axi_protos;
     d_eps := [mkep "cpu" None [rspec 0 4096] true true; mkep "dma" None [] true false;
               mkep "mem" (Some [2]) [rspec 65536 4096; rspec 131072 256] false true];
     d_rts := [{| rt_name := "router"; rt_array := None; rt_tree := None; rt_auto := true; rt_degree := None |}];
     d_conns := [{| c_src := "mem"; c_dst := "router"; c_src_range := Some [(0, 1)]; c_dst_range := None;
                    c_src_idx := None; c_dst_idx := None; c_src_lvl := None; c_dst_lvl := None;
                    c_src_dir := None; c_dst_dir := None; c_multi := true |};
                 mkconn "dma" "router"; mkconn "router" "cpu"] |}.

(* a 2 x 2 XY mesh with a memory row on the West boundary *)
Definition ex_mesh (a : algo) : desc :=
  {| d_name := "mesh"; d_nw := false; d_algo := a; d_use_table := true; d_protos := axi_protos;
     d_eps := [mkep "cluster" (Some [2; 2]) [rspec 0 65536] true true; mkep "hbm" (Some [2]) [rspec 2147483648 65536] false true];
     d_rts := [{| rt_name := "router"; rt_array := Some [2; 2]; rt_tree := None; rt_auto := true; rt_degree := Some 5 |}];
     d_conns := [{| c_src := "cluster"; c_dst := "router"; c_src_range := Some [(0, 1); (0, 1)]; c_dst_range := Some [(0, 1); (0, 1)];
                    c_src_idx := None; c_dst_idx := None; c_src_lvl := None; c_dst_lvl := None;
                    c_src_dir := None; c_dst_dir := Some 4; c_multi := false |};
                 {| c_src := "hbm"; c_dst := "router"; c_src_range := Some [(0, 1)]; c_dst_range := Some [(0, 0); (0, 1)];
                    c_src_idx := None; c_dst_idx := None; c_src_lvl := None; c_dst_lvl := None;
                    c_src_dir := None; c_dst_dir := Some 3; c_multi := false |}] |}.

(* a router tree [1, 2] with four leaf endpoints (two per leaf router) and one at the root *)
Definition ex_tree (a : algo) : desc :=
  {| d_name := "tree"; d_nw := false; d_algo := a; d_use_table := true; d_protos := axi_protos;
     d_eps := [mkep "leaf" (Some [4]) [rspec 0 4096] true true; mkep "top" None [rspec 1048576 4096] true true];
     d_rts := [{| rt_name := "router"; rt_array := None; rt_tree := Some [1; 2]; rt_auto := true; rt_degree := None |}];
     d_conns := [{| c_src := "leaf"; c_dst := "router"; c_src_range := Some [(0, 3)]; c_dst_range := None;
                    c_src_idx := None; c_dst_idx := None; c_src_lvl := None; c_dst_lvl := Some 1;
                    c_src_dir := None; c_dst_dir := None; c_multi := true |};
                 {| c_src := "router"; c_dst := "top"; c_src_range := None; c_dst_range := None;
                    c_src_idx := None; c_dst_idx := None; c_src_lvl := Some 0; c_dst_lvl := None;
                    c_src_dir := None; c_dst_dir := None; c_multi := false |}] |}.

Definition accepted (d : desc) : bool := is_ok (run sp_nx d).

Example examples_accepted :
  forallb accepted [ex_star ID; ex_star SRC; ex_mesh XY; ex_mesh ID; ex_mesh SRC; ex_tree ID; ex_tree SRC] = true.
Proof. vm_compute. reflexivity. Qed.

(* a narrow-wide star: two endpoints with both roles and one subordinate-only memory *)
Definition mkpw (name : string) (ty : string) (dw idw : Z) : proto :=
  {| p_name := name; p_type := Some ty; p_data := dw; p_addr := 48; p_id := idw; p_user := 1; p_prefix := None |}.
Definition nw_protos : list proto :=
  [mkpw "narrow_in" "narrow" 64 4; mkpw "narrow_out" "narrow" 64 2; mkpw "wide_in" "wide" 512 3; mkpw "wide_out" "wide" 512 1].
Definition mkepw (name : string) (rs : list range_spec) (m s : bool) : ep_desc :=
  {| ep_name := name; ep_array := None; ep_ranges := rs;
     ep_mgr := if m then Some ["narrow_in"; "wide_in"] else None; ep_sbr := if s then Some ["narrow_out"; "wide_out"] else None |}.
Definition ex_nw (a : algo) : desc :=
  {| d_name := "nwstar"; d_nw := true; d_algo := a; d_use_table := true; d_protos := nw_protos;
     d_eps := [mkepw "cpu" [rspec 0 4096] true true; mkepw "acc" [rspec 8192 4096] true true; mkepw "mem" [rspec 65536 65536] false true];
     d_rts := [{| rt_name := "router"; rt_array := None; rt_tree := None; rt_auto := true; rt_degree := None |}];
     d_conns := [mkconn "mem" "router"; mkconn "cpu" "router"; mkconn "router" "acc"] |}.

Example ex_nw_accepted : forallb accepted [ex_nw ID; ex_nw SRC] = true.
Proof. vm_compute. reflexivity. Qed.
