(* Proofs about Graph.v selectors (C18). *)
From FV Require Import Base Graph.
From Coq Require Import ZifyBool.

(* ------------------------------------------------------------------ mapM *)
Lemma mapM_ok {A B} (f : A -> res B) (g : A -> B) l :
  (forall x, In x l -> f x = Ok (g x)) -> mapM f l = Ok (map g l).
Proof.
  induction l as [|x xs IH]; cbn [mapM map]; intros H; [reflexivity|].
  rewrite (H x) by (cbn; auto). cbn [bind]. rewrite IH by (intros y Hy; apply H; cbn; auto).
  reflexivity.
Qed.

Lemma mapM_err {A B} (f : A -> res B) l :
  (exists x, In x l /\ exists e, f x = Err e) -> exists e, mapM f l = Err e.
Proof.
  induction l as [|x xs IH]; cbn [mapM]; intros (y & Hy & e & He); [destruct Hy|].
  destruct Hy as [<-|Hy].
  - rewrite He. cbn. eauto.
  - destruct (f x); cbn [bind]; [|eauto].
    destruct IH as (e' & ->); [eauto|]. cbn. eauto.
Qed.

(* ------------------------------------------------------------------ ranges *)
Lemma zcount_length n c s : length (zcount n c s) = n.
Proof. revert c. induction n as [|n IH]; intros c; cbn; auto. Qed.

Lemma zcount_nth n c s k :
  (k < n)%nat -> nth_error (zcount n c s) k = Some (c + Z.of_nat k * s).
Proof.
  revert c k. induction n as [|n IH]; intros c k Hk; [lia|].
  destruct k as [|k]; cbn [zcount nth_error]; [f_equal; lia|].
  rewrite IH by lia. f_equal. lia.
Qed.

(* each dimension runs from its first to its second bound, ascending or descending, inclusive *)
Lemma py_range_incl_spec a b :
  length (py_range_incl a b) = Z.to_nat (Z.abs (b - a) + 1) /\
  forall k, (k < Z.to_nat (Z.abs (b - a) + 1))%nat ->
            nth_error (py_range_incl a b) k =
            Some (if a <=? b then a + Z.of_nat k else a - Z.of_nat k).
Proof.
  unfold py_range_incl. destruct (b >? a) eqn:E.
  - rewrite zcount_length. split; [f_equal; lia|]. intros k Hk.
    rewrite zcount_nth by lia. destruct (a <=? b) eqn:E2; f_equal; lia.
  - rewrite zcount_length. split; [f_equal; lia|]. intros k Hk.
    rewrite zcount_nth by lia. destruct (a <=? b) eqn:E2; f_equal; lia.
Qed.

(* ------------------------------------------------------------------ the cartesian product spec *)
Fixpoint cart (rng : list (Z * Z)) : list (list Z) :=
  match rng with
  | [] => [[]]
  | (a, b) :: rest => flat_map (fun i => map (cons i) (cart rest)) (py_range_incl a b)
  end.

Lemma map_flat_map {A B C} (g : B -> C) (f : A -> list B) l :
  map g (flat_map f l) = flat_map (fun x => map g (f x)) l.
Proof. induction l as [|x xs IH]; cbn; [reflexivity|]. rewrite map_app, IH. reflexivity. Qed.

Lemma nodes_from_range_ok has rng : rng <> [] -> forall base,
  (forall idx, In idx (cart rng) -> has (full_name base idx) = true) ->
  nodes_from_range has base rng = Ok (map (full_name base) (cart rng)).
Proof.
  induction rng as [|[a b] rest IH]; intros Hne base Hall; [congruence|].
  destruct rest as [|r rest'].
  - cbn [nodes_from_range cart]. rewrite map_flat_map. cbn [map].
    rewrite (mapM_ok _ (idx_name base)).
    + f_equal.
    + intros i Hi. change (idx_name base i) with (full_name base [i]).
      rewrite (Hall [i]); [reflexivity|].
      cbn [cart]. apply in_flat_map. exists i. split; [exact Hi|cbn; auto].
  - set (rest := r :: rest') in *.
    assert (Hr : rest <> []) by (unfold rest; congruence).
    change (nodes_from_range has base ((a, b) :: rest))
      with (do ls <- mapM (fun i => nodes_from_range has (idx_name base i) rest) (py_range_incl a b);
            Ok (List.concat ls)).
    rewrite (mapM_ok _ (fun i => map (full_name (idx_name base i)) (cart rest))).
    + cbn [bind cart]. f_equal. rewrite map_flat_map, flat_map_concat_map. f_equal.
      apply map_ext. intros i. rewrite map_map. reflexivity.
    + intros i Hi. apply (IH Hr). intros idx Hidx.
      change (full_name (idx_name base i) idx) with (full_name base (i :: idx)).
      apply Hall. cbn [cart]. apply in_flat_map. exists i. split; [exact Hi|].
      apply in_map. exact Hidx.
Qed.

Lemma nodes_from_range_err has rng : rng <> [] -> forall base,
  (exists idx, In idx (cart rng) /\ has (full_name base idx) = false) ->
  exists e, nodes_from_range has base rng = Err e.
Proof.
  induction rng as [|[a b] rest IH]; intros Hne base (idx & Hin & Hf); [congruence|].
  destruct rest as [|r rest'].
  - cbn [nodes_from_range]. cbn [cart] in Hin. apply in_flat_map in Hin.
    destruct Hin as (i & Hi & Hidx). cbn in Hidx. destruct Hidx as [<-|[]].
    apply mapM_err. exists i. split; [exact Hi|]. cbn in Hf. rewrite Hf. eauto.
  - set (rest := r :: rest') in *.
    assert (Hr : rest <> []) by (unfold rest; congruence).
    change (nodes_from_range has base ((a, b) :: rest))
      with (do ls <- mapM (fun i => nodes_from_range has (idx_name base i) rest) (py_range_incl a b);
            Ok (List.concat ls)).
    cbn [cart] in Hin. apply in_flat_map in Hin. destruct Hin as (i & Hi & Hidx).
    apply in_map_iff in Hidx. destruct Hidx as (idx' & <- & Hidx').
    destruct (mapM_err (fun i => nodes_from_range has (idx_name base i) rest) (py_range_incl a b))
      as (e & ->); [|cbn; eauto].
    exists i. split; [exact Hi|]. apply (IH Hr). exists idx'. split; [exact Hidx'|exact Hf].
Qed.

Lemma nodes_from_range_empty has base : exists e, nodes_from_range has base [] = Err e.
Proof. cbn. eauto. Qed.

(* ------------------------------------------------------------------ index selection *)
Lemma append_assoc (a b c : string) : (a +++ b) +++ c = a +++ (b +++ c).
Proof. induction a as [|ch a IH]; cbn; [reflexivity|]. rewrite IH. reflexivity. Qed.

Lemma concat_with_cons2 sep x y l :
  concat_with sep (x :: y :: l) = x +++ sep +++ concat_with sep (y :: l).
Proof. reflexivity. Qed.

Lemma idx_joined_full base idx : idx <> [] -> idx_joined_name base idx = full_name base idx.
Proof.
  unfold idx_joined_name, full_name. revert base.
  induction idx as [|i rest IH]; intros base Hne; [congruence|].
  destruct rest as [|j rest'].
  - cbn. reflexivity.
  - change (fold_left idx_name (i :: j :: rest') base)
      with (fold_left idx_name (j :: rest') (idx_name base i)).
    rewrite <- IH by congruence.
    change (map Z_to_string (i :: j :: rest'))
      with (Z_to_string i :: Z_to_string j :: map Z_to_string rest').
    rewrite concat_with_cons2. unfold idx_name.
    change (map Z_to_string (j :: rest')) with (Z_to_string j :: map Z_to_string rest').
    rewrite !append_assoc. reflexivity.
Qed.

Lemma nodes_from_idx_spec has base idx :
  (has (idx_joined_name base idx) = true -> nodes_from_idx has base idx = Ok [idx_joined_name base idx]) /\
  (has (idx_joined_name base idx) = false -> exists e, nodes_from_idx has base idx = Err e).
Proof. unfold nodes_from_idx. split; intros H; cbv zeta; rewrite H; eauto. Qed.

(* ------------------------------------------------------------------ level selection on trees *)
Lemma prefix_refl s : String.prefix s s = true.
Proof. induction s as [|c s IH]; cbn; auto. destruct (ascii_dec c c); [exact IH|congruence]. Qed.
Lemma prefix_app p s t : String.prefix p s = true -> String.prefix p (s +++ t) = true.
Proof.
  revert s. induction p as [|c p IH]; intros s.
  - intros _. destruct (s +++ t); reflexivity.
  - destruct s as [|d s]; cbn; [intros H; discriminate H|].
    destruct (ascii_dec c d); [apply IH|intros H; discriminate H].
Qed.
Lemma prefix_idx_name p base i : String.prefix p base = true -> String.prefix p (idx_name base i) = true.
Proof. intros H. unfold idx_name. apply prefix_app, H. Qed.

Definition tree_node_ok (pre : string) (n : node) : Prop :=
  String.prefix pre (n_name n) = true /\ exists l, n_lvl n = Some l.

Lemma add_edge_nodes g e g' : add_edge g e = Ok g' -> g_nodes g' = g_nodes g.
Proof.
  unfold add_edge. destruct (has_edge _ _ _); [discriminate|].
  destruct (negb _); [discriminate|]. intros H; inversion H; reflexivity.
Qed.
Lemma add_node_nodes g n g' : add_node g n = Ok g' -> g_nodes g' = g_nodes g ++ [n].
Proof. unfold add_node. destruct (has_node _ _); [discriminate|]. intros H; inversion H; reflexivity. Qed.

Lemma foldM_inv {A S} (P : S -> Prop) (f : S -> A -> res S) l :
  (forall s x s', In x l -> P s -> f s x = Ok s' -> P s') ->
  forall s s', P s -> foldM f l s = Ok s' -> P s'.
Proof.
  induction l as [|x xs IH]; cbn [foldM]; intros Hstep s s' Hs H.
  - inversion H; subst; auto.
  - destruct (f s x) as [s1|] eqn:E; cbn [bind] in H; [|discriminate].
    apply (IH (fun s0 y s0' Hy => Hstep s0 y s0' (or_intror Hy)) s1 s'); auto.
    apply (Hstep s x s1); cbn; auto.
Qed.

Lemma add_tree_inv pre tree : forall g parent lvl desc connect g',
  String.prefix pre parent = true ->
  Forall (tree_node_ok pre) (g_nodes g) ->
  add_nodes_as_tree g parent tree lvl desc connect = Ok g' ->
  Forall (tree_node_ok pre) (g_nodes g').
Proof.
  induction tree as [|t rest IH]; intros g parent lvl desc connect g' Hp Hg H; cbn [add_nodes_as_tree] in H.
  - inversion H; subst; auto.
  - revert H. apply (foldM_inv (fun g0 => Forall (tree_node_ok pre) (g_nodes g0))); [|exact Hg].
    intros s i s' _ Hs Hstep.
    destruct (add_node s _) as [s1|] eqn:E1; cbn [bind] in Hstep; [|discriminate].
    assert (H1 : Forall (tree_node_ok pre) (g_nodes s1)).
    { rewrite (add_node_nodes _ _ _ E1). apply Forall_app. split; [exact Hs|].
      constructor; [|constructor]. split; cbn; [apply prefix_idx_name, Hp|eauto]. }
    destruct (connect && (0 <? lvl)).
    + destruct (add_edge s1 _) as [s2|] eqn:E2; cbn [bind] in Hstep; [|discriminate].
      destruct (add_edge s2 _) as [s3|] eqn:E3; cbn [bind] in Hstep; [|discriminate].
      apply (IH s3 (idx_name parent i) (lvl + 1) desc connect s'); auto.
      * apply prefix_idx_name, Hp.
      * rewrite (add_edge_nodes _ _ _ E3), (add_edge_nodes _ _ _ E2). exact H1.
    + cbn [bind] in Hstep. apply (IH s1 (idx_name parent i) (lvl + 1) desc connect s'); auto.
      apply prefix_idx_name, Hp.
Qed.

Lemma filter_all {A} (f : A -> bool) l : (forall x, In x l -> f x = true) -> filter f l = l.
Proof.
  induction l as [|x xs IH]; cbn; intros H; [reflexivity|].
  rewrite (H x) by auto. f_equal. apply IH. intros y Hy. apply H. auto.
Qed.

Definition lvl_is (lvl : Z) (n : node) : bool :=
  match n_lvl n with Some l => l =? lvl | None => false end.

Lemma nodes_from_lvl_tree g pre lvl :
  Forall (tree_node_ok pre) (g_nodes g) ->
  nodes_from_lvl g pre lvl = Ok (map n_name (filter (lvl_is lvl) (g_nodes g))).
Proof.
  intros H. unfold nodes_from_lvl. rewrite Forall_forall in H.
  rewrite filter_all by (intros x Hx; apply (H x Hx)).
  rewrite (mapM_ok _ (fun n => (n, lvl_is lvl n))).
  - clear H. cbn [bind]. f_equal. induction (g_nodes g) as [|n l IH]; cbn; [reflexivity|].
    destruct (lvl_is lvl n); cbn; rewrite IH; reflexivity.
  - intros n Hn. destruct (H n Hn) as (_ & l & Hl). unfold lvl_is. rewrite Hl. reflexivity.
Qed.

Theorem nodes_from_lvl_on_tree parent tree desc connect g lvl :
  add_nodes_as_tree g_empty parent tree 0 desc connect = Ok g ->
  nodes_from_lvl g parent lvl = Ok (map n_name (filter (lvl_is lvl) (g_nodes g))).
Proof.
  intros H. apply nodes_from_lvl_tree.
  apply (add_tree_inv parent tree g_empty parent 0 desc connect g); auto using prefix_refl.
  constructor.
Qed.
