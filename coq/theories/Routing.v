(* Routing.v — model of Network.gen_routing_info: gen_xy_routing_info, gen_router_tables,
   gen_routes, gen_sam.  `sp` is the shortest-path oracle (nx.shortest_path).  Definitions only. *)
From FV Require Import Base AddrRange RouteMap Graph Desc Build Netlist Compile.

Definition oracle := graph -> string -> string -> option (list string).

Definition link_eqb (a b : link) : bool := str_eqb (fst a) (fst b) && str_eqb (snd a) (snd b).
Fixpoint slot_index (l : link) (slots : list (option link)) : option nat :=
  match slots with
  | [] => None
  | o :: r => if match o with Some z => link_eqb l z | None => false end then Some O
              else option_map S (slot_index l r)
  end.
Definition out_index (r : crt) (l : link) : option nat := slot_index l (cr_out r).

Definition ni_sbr (n : cni) : bool := ep_is_sbr (cn_ep n).
Definition ni_mgr (n : cni) : bool := ep_is_mgr (cn_ep n).

Record rinfo := {
  ri_num_ep : Z; ri_id_bits : Z;
  ri_xy : option (Z * (Z * (Z * (Z * Z))));      (* x bits, y bits, addr offset bits, offset x, offset y *)
  ri_tables : list (string * list rule);          (* router -> trimmed table (ID) *)
  ri_routes : list (string * list (Z * option (list (Z * Z)))); (* NI -> per destination (id, ports) (SRC) *)
  ri_route_bits : Z;
  ri_sam : list (idv * (range * string));         (* destination, range, rule name *)
}.

(* ---------------------------------------------------------------- XY *)
Definition idx_xy (i : idv) : res (Z * Z) :=
  match i with IdXY x y _ => Ok (x, y) | IdN _ => Err "coordinate expected" end.
Definition zmin (l : list Z) : res Z := match l with [] => Err "min() of empty" | x :: xs => Ok (fold_left Z.min xs x) end.
Definition zmax (l : list Z) : res Z := match l with [] => Err "max() of empty" | x :: xs => Ok (fold_left Z.max xs x) end.

Definition gen_xy (c : compiled) : res (Z * (Z * (Z * (Z * Z)))) :=
  do nc <- mapM (fun n => idx_xy (cn_id n)) (c_nis c);
  do rc <- mapM (fun r => match cr_id r with Some i => idx_xy i | None => Err "router id" end) (c_rts c);
  let all := nc ++ rc in
  do minx <- zmin (map fst all); do miny <- zmin (map snd all);
  do maxx <- zmax (map fst all); do maxy <- zmax (map snd all);
  do ends <- mapM (fun n => zmax (map r_end (cn_ranges n))) (filter ni_sbr (c_nis c));
  do maxa <- zmax ends;
  Ok (clog2 (maxx - minx + 1), (clog2 (maxy - miny + 1), (clog2 maxa, (minx, miny)))).

(* ---------------------------------------------------------------- ID tables *)
Definition id_num (i : idv) : res Z := match i with IdN n => Ok n | _ => Err "simple id expected" end.

Definition gen_table (sp : oracle) (c : compiled) (r : crt) : res (list rule) :=
  do rules <- mapM (fun n =>
      match sp (c_graph c) (cr_name r) (cn_name n) with
      | Some (_ :: nxt :: _) =>
          match out_index r (cr_name r, nxt) with
          | Some k => do id <- id_num (cn_id n);
                      Ok {| dest := Z.of_nat k; st := id; en := id + 1; sz := 1 |}
          | None => Err "ValueError: link not in outgoing"
          end
      | Some _ => Err "IndexError: path too short"
      | None => Err "NetworkXNoPath"
      end) (c_nis c);
  do m <- mk_map rules;
  trim m.

(* ---------------------------------------------------------------- source routes *)
Definition find_crt (c : compiled) (name : string) : option crt :=
  find (fun r => str_eqb (cr_name r) name) (c_rts c).

Fixpoint ports_along (c : compiled) (path : list string) : res (list (Z * Z)) :=
  match path with
  | a :: ((b :: _) as tl) =>
      match find_crt c a with
      | Some r =>
          match out_index r (a, b) with
          | Some k => do rest <- ports_along c tl; Ok ((Z.of_nat k, clog2 (Z.of_nat (length (cr_out r)))) :: rest)
          | None => Err "ValueError: link not in outgoing"
          end
      | None => Err "route crosses a node that is not a router"
      end
  | _ => Ok []
  end.

Definition only_mgr (n : cni) := ni_mgr n && negb (ni_sbr n).
Definition only_sbr (n : cni) := ni_sbr n && negb (ni_mgr n).

Definition gen_route (sp : oracle) (c : compiled) (s t : cni) : res (Z * option (list (Z * Z))) :=
  do id <- id_num (cn_id t);
  if str_eqb (cn_name s) (cn_name t) || (only_mgr s && only_mgr t) || (only_sbr s && only_sbr t)
  then Ok (id, None)
  else match sp (c_graph c) (cn_name s) (cn_name t) with
       | Some (_ :: inner) =>
           (* route[1 .. len-2] with the hop to the following node: the last inner router's next is the target *)
           do ps <- ports_along c inner; Ok (id, Some ps)
       | Some [] => Err "empty path"
       | None => Err "NetworkXNoPath"
       end.

Definition route_bits_of (r : Z * option (list (Z * Z))) : Z :=
  match snd r with Some ps => fold_left (fun acc p => acc + snd p) ps 0 | None => 0 end.

(* ---------------------------------------------------------------- SAM *)
Definition capitalize (s : string) : string :=
  match s with
  | EmptyString => EmptyString
  | String c r =>
      let n := nat_of_ascii c in
      String (if (Nat.leb 97 n && Nat.leb n 122)%bool then ascii_of_nat (n - 32) else c) r
  end.
(* render_enum_name *)
Definition enum_name (n : cni) : string :=
  match cn_arr n with
  | Some [x; y] => ep_name (cn_ep n) +++ "_x" +++ Z_to_string x +++ "_y" +++ Z_to_string y
  | Some [i] => ep_name (cn_ep n) +++ "_" +++ Z_to_string i
  | _ => ep_name (cn_ep n)
  end.

Definition id_sub (i : idv) (off : option (Z * Z)) : idv :=
  match i, off with
  | IdXY x y p, Some (ox, oy) => IdXY (x - ox) (y - oy) p
  | _, _ => i
  end.

Definition gen_sam (c : compiled) (off : option (Z * Z)) : list (idv * (range * string)) :=
  flat_map (fun n =>
      let dest := id_sub (cn_id n) off in
      let many := Nat.ltb 1 (length (cn_ranges n)) in
      map (fun ir =>
             let '(i, (r, spec)) := ir in
             let nm := enum_name n +++
                       match rs_desc spec with
                       | Some dsc => "_" +++ dsc
                       | None => if many then "_" +++ nat_to_string i else ""
                       end +++ "_sam_idx" in
             (dest, (r, nm)))
          (enumerate (zip (cn_ranges n) (ep_ranges (cn_ep n)))))
    (rev (filter ni_sbr (c_nis c))).

(* ---------------------------------------------------------------- names *)
Definition is_lower (n : nat) : bool := (Nat.leb 97 n && Nat.leb n 122)%bool.
Definition is_upper (n : nat) : bool := (Nat.leb 65 n && Nat.leb n 90)%bool.
Fixpoint lower (s : string) : string :=
  match s with
  | EmptyString => EmptyString
  | String c r => let n := nat_of_ascii c in String (if is_upper n then ascii_of_nat (n + 32) else c) (lower r)
  end.
(* str.capitalize(): first character upper-cased, the rest lower-cased *)
Definition py_capitalize (s : string) : string :=
  match s with
  | EmptyString => EmptyString
  | String c r => let n := nat_of_ascii c in String (if is_lower n then ascii_of_nat (n - 32) else c) (lower r)
  end.
Fixpoint all_digits (s : string) : bool :=
  match s with
  | EmptyString => true
  | String c r => let n := nat_of_ascii c in (Nat.leb 48 n && Nat.leb n 57)%bool && all_digits r
  end.
Definition is_digit_str (s : string) : bool := match s with EmptyString => false | _ => all_digits s end.

Fixpoint split_us (s : string) (cur : string) : list string :=
  match s with
  | EmptyString => [str_rev cur]
  | String c r => if Ascii.eqb c "_"%char then str_rev cur :: split_us r EmptyString
                  else split_us r (String c cur)
  end.
(* snake_to_camel (after the fix that keeps '_' between two numeric pieces) *)
Fixpoint camel_parts (prev : option string) (parts : list string) : string :=
  match parts with
  | [] => EmptyString
  | p :: rest =>
      (match prev with
       | Some q => if is_digit_str q && is_digit_str p then "_" else ""
       | None => ""
       end) +++ py_capitalize p +++ camel_parts (Some p) rest
  end.
Definition snake_to_camel (s : string) : string := camel_parts None (split_us s EmptyString).


(* Network.check_identifiers: names must stay distinct when rendered as CamelCase identifiers *)
Definition check_identifiers (names : list string) (what : string) : res unit :=
  if nodupb str_eqb (map snake_to_camel names) then Ok tt
  else Err ("ValueError: two " +++ what +++ " are rendered as the same identifier").

Definition gen_routing_info (sp : oracle) (c : compiled) : res rinfo :=
  let num := Z.of_nat (length (c_nis c)) in
  if num =? 0 then Err "No endpoints found in the network" else
  let idb := clog2 num in
  (* the members of ep_id_e are the CamelCase names of the endpoint instances, followed by the endpoint count *)
  do _ <- check_identifiers (map enum_name (c_nis c) ++ ["num_endpoints"]) "endpoint enumeration members";
  do xy <- match d_algo (c_desc c) with XY => do v <- gen_xy c; Ok (Some v) | _ => Ok None end;
  do tables <- match d_algo (c_desc c) with
               | ID => do _ <- check_identifiers (map (fun r => cr_name r +++ "_map") (c_rts c)) "router tables";
                       mapM (fun r => do t <- gen_table sp c r; Ok (cr_name r, t)) (c_rts c)
               | _ => Ok []
               end;
  do routes <- match d_algo (c_desc c) with
               | SRC => mapM (fun s => do rs <- mapM (gen_route sp c s) (c_nis c); Ok (cn_name s, rs)) (c_nis c)
               | _ => Ok []
               end;
  (* gen_routes starts from one bit: a route word is never zero bits wide *)
  let rbits := fold_left Z.max (flat_map (fun nr => map route_bits_of (snd nr)) routes) 1 in
  let off := match xy with Some (_, (_, (_, o))) => Some o | None => None end in
  let sam := gen_sam c off in
  do _ <- check_identifiers (map (fun e => snd (snd e)) sam) "address map rules";
  (* RouteMap(name="sam", rules=...) runs the overlap check *)
  do _ <- mk_map (map (fun e => {| dest := 0; st := r_start (fst (snd e)); en := r_end (fst (snd e));
                                   sz := r_size (fst (snd e)) |}) sam);
  Ok {| ri_num_ep := num; ri_id_bits := idb; ri_xy := xy; ri_tables := tables; ri_routes := routes;
        ri_route_bits := rbits; ri_sam := sam |}.
