(* Manifest.v — C20: checker over the regenerated manifest facts, and its soundness. *)
From FV Require Import Base.

Definition mem (s : string) (l : list string) : bool := existsb (str_eqb s) l.

Definition generated_prefix : string := "generated/".
Definition strip_generated (p : string) : option string :=
  if String.prefix generated_prefix p
  then Some (substring (String.length generated_prefix) (String.length p - String.length generated_prefix) p)
  else None.

(* (a) a listed path exists, or is a path that the project's own flow (`make sources`: the Makefile's output
   directory joined with the file name the real floogen writes) produces for a shipped example whose description
   name is one of the entry's target atoms *)
Definition entry_ok (tree : list string) (gen : list (string * string)) (atoms : list string) (p : string) : bool :=
  mem p tree || existsb (fun g => str_eqb (snd g) p && mem (fst g) atoms) gen.

(* (b) R contains the top modules and is closed under instantiation *)
Definition closedb (edges : list (string * string)) (R : list string) : bool :=
  forallb (fun e => negb (mem (fst e) R) || mem (snd e) R) edges.
Fixpoint grow (fuel : nat) (edges : list (string * string)) (R : list string) : list string :=
  match fuel with
  | O => R
  | S f => let R' := fold_left (fun acc e => if mem (fst e) acc && negb (mem (snd e) acc) then acc ++ [snd e] else acc)
                               edges R in
           grow f edges R'
  end.
Definition listedb (mf : list (string * string)) (listed : list string) (m : string) : bool :=
  match find (fun p => str_eqb (fst p) m) mf with
  | Some (_, f) => mem f listed
  | None => true     (* not defined in this repository: an external dependency *)
  end.

Definition closure_ok (mf : list (string * string)) (edges : list (string * string)) (tops listed : list string) : bool :=
  let R := grow (length mf) edges tops in
  forallb (fun t => mem t R) tops && closedb edges R && forallb (listedb mf listed) R.

Inductive Reach (edges : list (string * string)) (tops : list string) : string -> Prop :=
| reach_top m : In m tops -> Reach edges tops m
| reach_step a b : Reach edges tops a -> In (a, b) edges -> Reach edges tops b.

Lemma mem_In s l : mem s l = true <-> In s l.
Proof.
  unfold mem. rewrite existsb_exists. split.
  - intros (x & Hx & E). apply String.eqb_eq in E. subst. exact Hx.
  - intros H. exists s. split; [exact H|apply String.eqb_eq; reflexivity].
Qed.

Theorem closure_sound mf edges tops listed :
  closure_ok mf edges tops listed = true ->
  forall m, Reach edges tops m -> forall f, In (m, f) mf ->
    (forall f', In (m, f') mf -> f' = f) -> In f listed.
Proof.
  unfold closure_ok. set (R := grow (length mf) edges tops).
  rewrite !andb_true_iff, !forallb_forall. intros ((Ht & Hc) & Hl) m Hr.
  assert (HR : In m R).
  { induction Hr as [m Hm|a b _ IH Hab].
    - apply mem_In. apply Ht. exact Hm.
    - unfold closedb in Hc. rewrite forallb_forall in Hc. specialize (Hc (a, b) Hab). cbn [fst snd] in Hc.
      apply mem_In in IH. rewrite IH in Hc. cbn in Hc. apply mem_In. exact Hc. }
  intros f Hf Huniq. specialize (Hl m HR). unfold listedb in Hl.
  destruct (find (fun p => str_eqb (fst p) m) mf) as [[m' f']|] eqn:E.
  - apply find_some in E. destruct E as (Hin & Em). cbn in Em. apply String.eqb_eq in Em. subst m'.
    rewrite (Huniq f' Hin) in Hl. apply mem_In. exact Hl.
  - exfalso. pose proof (find_none _ _ E (m, f) Hf) as Hn. cbn in Hn.
    assert (str_eqb m m = true) by (apply String.eqb_eq; reflexivity). congruence.
Qed.
