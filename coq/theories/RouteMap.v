(* RouteMap.v — model of floogen/model/routing.py: class RouteMap
   (check_no_overlapping_ranges, trim).  A rule is (destination, start, end, size); for router
   tables the "address" is an endpoint identifier and the destination an output port.
   Definitions only. *)
From FV Require Import Base.

Record rule := { dest : Z; st : Z; en : Z; sz : Z }.

Definition lt_start (r1 r2 : rule) : bool := st r1 <? st r2.
Definition sort_rules : list rule -> list rule := sort_by lt_start.

(* `rules[i].end > rules[i+1].start` for some adjacent pair of the start-sorted list => error *)
Fixpoint adjacent_ok (l : list rule) : bool :=
  match l with
  | r1 :: ((r2 :: _) as tl) => (en r1 <=? st r2) && adjacent_ok tl
  | _ => true
  end.
Definition check_no_overlap (l : list rule) : bool := adjacent_ok (sort_rules l).

(* RouteMap(name, rules): the constructor runs the overlap check *)
Definition mk_map (l : list rule) : res (list rule) :=
  if check_no_overlap l then Ok l else Err "Overlapping ranges".

(* trim: destinations in first-occurrence order (dict insertion order) *)
Fixpoint dests (l : list rule) : list Z :=
  match l with
  | [] => []
  | x :: xs => dest x :: filter (fun d => negb (d =? dest x)) (dests xs)
  end.
Definition group (l : list rule) (d : Z) : list rule := filter (fun r => dest r =? d) l.

(* the while loop: keep extending the current rule while the next one starts where it ends *)
Fixpoint merge_from (cur : rule) (l : list rule) : list rule :=
  match l with
  | [] => [cur]
  | x :: xs =>
      if en cur =? st x
      then merge_from {| dest := dest cur; st := st cur; en := en x; sz := en x - st cur |} xs
      else cur :: merge_from x xs
  end.
Definition merge (l : list rule) : list rule :=
  match l with [] => [] | x :: xs => merge_from x xs end.

Definition trim_rules (l : list rule) : list rule :=
  flat_map (fun d => merge (sort_rules (group l d))) (dests l).

(* trim ends with self.model_validate(self), which re-runs the overlap check *)
Definition trim (l : list rule) : res (list rule) := mk_map (trim_rules l).

(* the hardware's use of a table: indices of the rules matching an identifier / address *)
Definition matchesb (r : rule) (a : Z) : bool := (st r <=? a) && (a <? en r).
Definition decode_all (t : list rule) (a : Z) : list Z :=
  map dest (filter (fun r => matchesb r a) t).

(* ---- certified checker for C16, evaluated on the implementation's real output:
   t = table before compaction, t' = what the implementation returned *)
Definition rule_eqb (r s : rule) : bool :=
  (dest r =? dest s) && (st r =? st s) && (en r =? en s) && (sz r =? sz s).
Fixpoint rules_eqb (l m : list rule) : bool :=
  match l, m with
  | [], [] => true
  | x :: xs, y :: ys => rule_eqb x y && rules_eqb xs ys
  | _, _ => false
  end.
Definition wfb (r : rule) : bool := st r <? en r.
Definition size_okb (r : rule) : bool := sz r =? en r - st r.
Definition touchb (r s : rule) : bool :=
  (dest r =? dest s) && ((en r =? st s) || (en s =? st r)).
Fixpoint no_touchb (l : list rule) : bool :=
  match l with
  | [] => true
  | r :: rs => forallb (fun s => negb (touchb r s)) rs && no_touchb rs
  end.
Definition canon_rules (l : list rule) : list rule := sort_rules (trim_rules l).
Definition chk_C16 (t t' : list rule) : bool :=
  forallb wfb t' && check_no_overlap t' && no_touchb t' && forallb size_okb t' &&
  rules_eqb (canon_rules t) (canon_rules t').

(* ---- wire format: rule = (dest start end size) *)
Definition rule_to_sx (r : rule) : sx := L [xZ (dest r); xZ (st r); xZ (en r); xZ (sz r)].
Definition rule_of_sx (x : sx) : res rule :=
  match x with
  | L [d; s; e; z] => do d <- sx_Z d; do s <- sx_Z s; do e <- sx_Z e; do z <- sx_Z z;
                      Ok {| dest := d; st := s; en := e; sz := z |}
  | _ => Err "rule: (dest start end size) expected"
  end.
Definition rules_res_to_sx (r : res (list rule)) : sx :=
  match r with Ok l => L [A "ok"; xL rule_to_sx l] | Err _ => L [A "err"] end.

(* (c16 (rule...)) -> ((ok|err of construction) (ok (rules) | err of trim)) *)
Definition handle_c16 (args : list sx) : res sx :=
  match args with
  | [rs] => do l <- sx_listof rule_of_sx rs;
            Ok (L [rules_res_to_sx (mk_map l); rules_res_to_sx (trim l)])
  | [A "chk"; rs; rs'] =>
      do l <- sx_listof rule_of_sx rs; do l' <- sx_listof rule_of_sx rs';
      Ok (xB (chk_C16 l l'))
  | _ => Err "c16: bad arity"
  end.
