(* RefOracle.v — a reference shortest-path oracle with a machine-checked proof that it satisfies the
   hypotheses of the routing theorems (so those theorems are not vacuous): iterative deepening on
   "t is reachable from u within k edges", k up to the number of nodes. *)
From FV Require Import Base Graph PathProofs.
From Coq Require Import ZifyBool.

Lemma str_eqb_refl x : str_eqb x x = true.
Proof. apply String.eqb_eq. reflexivity. Qed.

Section Ref.
  Variable g : graph.
  Variable t : string.

  Definition edge (u v : string) : Prop := exists e, In e (g_edges g) /\ e_src e = u /\ e_dst e = v.

  Lemma successors_edge u v : In v (successors g u) <-> edge u v.
  Proof.
    unfold successors, edge. rewrite in_map_iff. split.
    - intros (e & <- & He). apply filter_In in He. destruct He as (He & Hs). apply String.eqb_eq in Hs. eauto.
    - intros (e & He & Hs & Hd). exists e. split; [exact Hd|]. apply filter_In. split; [exact He|].
      apply String.eqb_eq. exact Hs.
  Qed.

  (* t reachable from u within k edges *)
  Fixpoint reach (k : nat) (u : string) : bool :=
    str_eqb u t || match k with O => false | S k' => existsb (reach k') (successors g u) end.

  Lemma reach_sound k : forall u, reach k u = true -> exists p, path_to_t edge t p u /\ (length p <= S k)%nat.
  Proof.
    induction k as [|k IH]; intros u H; cbn [reach] in H; apply orb_true_iff in H.
    - destruct H as [H|H]; [|discriminate]. apply String.eqb_eq in H. subst. exists [t]. split; [|cbn; lia].
      repeat split; cbn; auto; discriminate.
    - destruct H as [H|H].
      + apply String.eqb_eq in H. subst. exists [t]. split; [|cbn; lia]. repeat split; cbn; auto; discriminate.
      + apply existsb_exists in H. destruct H as (v & Hv & Hr). destruct (IH v Hr) as (p & Hp & Hl).
        destruct (path_head _ _ _ _ Hp) as (rest & ->). exists (u :: v :: rest). split; [|cbn [length] in *; lia].
        destruct Hp as (Hw & _ & Hlast & _). unfold path_to_t. split; [|split; [|split]].
        * cbn [is_walk]. split; [apply successors_edge; exact Hv|exact Hw].
        * reflexivity.
        * rewrite <- Hlast. cbn [last]. apply last_indep.
        * discriminate.
  Qed.

  Lemma reach_complete : forall p u k, path_to_t edge t p u -> (length p <= S k)%nat -> reach k u = true.
  Proof.
    induction p as [|a p IH]; intros u k Hp Hl; [destruct Hp as (_ & _ & _ & H); congruence|].
    destruct (path_head _ _ _ _ Hp) as (rest & E). inversion E; subst a rest.
    destruct p as [|b p'].
    - apply single_path in Hp. subst. destruct k; cbn [reach]; rewrite str_eqb_refl; reflexivity.
    - destruct k as [|k]; [cbn in Hl; lia|]. cbn [reach]. apply orb_true_iff. right.
      apply existsb_exists. exists b. split.
      + destruct Hp as (Hw & _). cbn [is_walk] in Hw. apply successors_edge. tauto.
      + apply IH; [eapply path_tail; eauto|cbn [length] in *; lia].
  Qed.

  (* least k <= n with reach k u *)
  Fixpoint least_from (fuel k : nat) (u : string) : option nat :=
    match fuel with
    | O => None
    | S f => if reach k u then Some k else least_from f (S k) u
    end.

  Lemma least_spec fuel : forall k u m, least_from fuel k u = Some m ->
    reach m u = true /\ (k <= m < k + fuel)%nat /\ forall j, (k <= j < m)%nat -> reach j u = false.
  Proof.
    induction fuel as [|f IH]; intros k u m H; cbn [least_from] in H; [discriminate|].
    destruct (reach k u) eqn:E.
    - inversion H; subst. split; [exact E|]. split; [lia|]. intros j Hj. lia.
    - destruct (IH _ _ _ H) as (A & B & C). split; [exact A|]. split; [lia|].
      intros j Hj. destruct (Nat.eq_dec j k) as [->|Hne]; [exact E|apply C; lia].
  Qed.
  Lemma least_none fuel : forall k u, least_from fuel k u = None -> forall j, (k <= j < k + fuel)%nat -> reach j u = false.
  Proof.
    induction fuel as [|f IH]; intros k u H j Hj; [lia|]. cbn [least_from] in H.
    destruct (reach k u) eqn:E; [discriminate|].
    destruct (Nat.eq_dec j k) as [->|Hne]; [exact E|apply (IH _ _ H); lia].
  Qed.

  (* a path along successors that keep t within reach *)
  Fixpoint bpath (k : nat) (u : string) : list string :=
    if str_eqb u t then [u] else
    match k with
    | O => [u]
    | S k' => match find (reach k') (successors g u) with
              | Some v => u :: bpath k' v
              | None => [u]
              end
    end.

  Lemma bpath_ok k : forall u, reach k u = true -> path_to_t edge t (bpath k u) u /\ (length (bpath k u) <= S k)%nat.
  Proof.
    induction k as [|k IH]; intros u H.
    - cbn [reach] in H. rewrite orb_false_r in H. cbn [bpath]. rewrite H. apply String.eqb_eq in H. subst.
      split; [repeat split; cbn; auto; discriminate|cbn; lia].
    - cbn [bpath]. destruct (str_eqb u t) eqn:E.
      + apply String.eqb_eq in E. subst. split; [repeat split; cbn; auto; discriminate|cbn; lia].
      + cbn [reach] in H. rewrite E in H. cbn [orb] in H.
        destruct (find (reach k) (successors g u)) as [v|] eqn:F.
        * apply find_some in F. destruct F as (Hv & Hr). destruct (IH v Hr) as (Hp & Hl).
          destruct (path_head _ _ _ _ Hp) as (rest & Eb). rewrite Eb in *.
          split; [|cbn [length] in *; lia].
          destruct Hp as (Hw & _ & Hlast & _). unfold path_to_t. split; [|split; [|split]].
          -- cbn [is_walk]. split; [apply successors_edge; exact Hv|exact Hw].
          -- reflexivity.
          -- rewrite <- Hlast. cbn [last]. apply last_indep.
          -- discriminate.
        * exfalso. apply existsb_exists in H. destruct H as (v & Hv & Hr).
          pose proof (find_none _ _ F v Hv). congruence.
  Qed.

  Definition bound : nat := S (length (g_nodes g)).
  Definition sp_ref (s : string) : option (list string) :=
    match least_from bound 0 s with
    | Some k => Some (bpath k s)
    | None => None
    end.

  Theorem sp_ref_path s p : sp_ref s = Some p -> path_to_t edge t p s.
  Proof.
    unfold sp_ref. destruct (least_from bound 0 s) as [k|] eqn:E; [|discriminate]. intros H. inversion H; subst.
    destruct (least_spec _ _ _ _ E) as (A & _ & _). apply (bpath_ok k s A).
  Qed.

  Theorem sp_ref_bound s p : sp_ref s = Some p -> (length p <= bound)%nat.
  Proof.
    unfold sp_ref. destruct (least_from bound 0 s) as [k|] eqn:E; [|discriminate]. intros H. inversion H; subst.
    destruct (least_spec _ _ _ _ E) as (A & B & _). pose proof (proj2 (bpath_ok k s A)). lia.
  Qed.

  Theorem sp_ref_min s p q : sp_ref s = Some p -> path_to_t edge t q s -> (length p <= length q)%nat.
  Proof.
    unfold sp_ref. destruct (least_from bound 0 s) as [k|] eqn:E; [|discriminate]. intros H Hq. inversion H; subst.
    destruct (least_spec _ _ _ _ E) as (A & B & C). pose proof (proj2 (bpath_ok k s A)) as Hl.
    destruct (le_lt_dec (length (bpath k s)) (length q)) as [|Hlt]; [assumption|exfalso].
    destruct q as [|x q']; [destruct Hq as (_ & _ & _ & Hn); congruence|].
    assert (Hr : reach (length q') s = true) by (eapply reach_complete; [exact Hq|cbn; lia]).
    rewrite (C (length q')) in Hr; [discriminate|cbn [length] in Hlt; lia].
  Qed.

  Theorem sp_ref_complete s q : path_to_t edge t q s -> (length q <= bound)%nat -> sp_ref s <> None.
  Proof.
    intros Hq Hl. unfold sp_ref. destruct (least_from bound 0 s) as [k|] eqn:E; [discriminate|exfalso].
    destruct q as [|x q']; [destruct Hq as (_ & _ & _ & Hn); congruence|].
    assert (Hr : reach (length q') s = true) by (eapply reach_complete; [exact Hq|cbn; lia]).
    rewrite (least_none _ _ _ E (length q')) in Hr; [discriminate|cbn [length] in Hl; unfold bound in *; lia].
  Qed.
End Ref.

(* as an oracle in the sense of Routing.v *)
Definition sp_reference (g : graph) (s t : string) : option (list string) := sp_ref g t s.
