(* Side.v — decidable side conditions of the hardware-level theorems, as executable definitions (evaluated by
   the harness on every explored description through the extracted binary).  Definitions only. *)
From FV Require Import Base Graph Desc Build Netlist Compile Routing Emit Hw.

(* the name of the signal that carries net nt from unit u to unit v *)
Definition flow (nt : net) (l : link) : string := fst l +++ "_to_" +++ snd l +++ "_" +++ net_name nt.
Definition net_type (nt : net) : string :=
  match nt with Req => "floo_req_t" | Rsp => "floo_rsp_t" | Wide => "floo_wide_t" end.

Definition epair (e : edge) : string * string := (e_src e, e_dst e).
Definition link_edges (g : graph) : list edge := filter is_link (g_edges g).
Definition pair_eqb (a b : string * string) : bool := str_eqb (fst a) (fst b) && str_eqb (snd a) (snd b).

(* signal names determine their links *)
Definition names_sepb (g : graph) (nt : net) : bool :=
  forallb (fun e1 => forallb (fun e2 => negb (str_eqb (flow nt (epair e1)) (flow nt (epair e2))) || pair_eqb (epair e1) (epair e2))
                             (link_edges g)) (link_edges g).
(* every interface has exactly one link in each direction *)
Definition single_attachb (g : graph) (c : compiled) : bool :=
  forallb (fun x => forallb (fun e =>
      (negb (str_eqb (e_src e) (cn_name x)) || pair_eqb (epair e) (cn_mgr_link x)) &&
      (negb (str_eqb (e_dst e) (cn_name x)) || pair_eqb (epair e) (cn_sbr_link x))) (link_edges g)) (c_nis c).
(* links join interfaces and routers only *)
Definition is_rtb (c : compiled) (u : string) : bool := existsb (fun r => str_eqb (cr_name r) u) (c_rts c).
Definition is_unitb (c : compiled) (u : string) : bool :=
  is_rtb c u || existsb (fun x => str_eqb (cn_name x) u) (c_nis c).
Definition links_typedb (g : graph) (c : compiled) : bool :=
  forallb (fun e => is_unitb c (e_src e) && is_unitb c (e_dst e)) (link_edges g).
(* port counts fit the 32-bit index field of a table rule *)
Definition degrees_fitb (c : compiled) : bool :=
  forallb (fun r => Z.of_nat (length (cr_out r)) <=? 2 ^ 32) (c_rts c).

Definition side_conditions (d : desc) : res (list bool) :=
  do g <- build d; do c <- compile d g;
  Ok [names_sepb g Req; names_sepb g Rsp; negb (d_nw d) || names_sepb g Wide; single_attachb g c; links_typedb g c; degrees_fitb c].
