(* Side.v — decidable side conditions of the hardware-level theorems, as executable definitions (evaluated by
   the harness on every explored description through the extracted binary).  Definitions only. *)
From FV Require Import Base Graph Desc Build Netlist Compile Routing Emit Hw.

(* the name of the signal that carries net nt from unit u to unit v *)
Definition flow (nt : net) (l : link) : string := fst l +++ "_to_" +++ snd l +++ "_" +++ net_name nt.
Definition net_type (nt : net) : string :=
  match nt with Req => "floo_req_t" | Rsp => "floo_rsp_t" | Wide => "floo_wide_t" end.

Definition epair (e : edge) : string * string := (e_src e, e_dst e).
Definition link_edges (g : graph) : list edge := filter is_link (g_edges g).
Definition pair_eqb (a b : string * string) : bool := str_eqb (fst a) (fst b) && str_eqb (snd a) (snd b).

(* signal names determine their links *)
Definition names_sepb (g : graph) (nt : net) : bool :=
  forallb (fun e1 => forallb (fun e2 => negb (str_eqb (flow nt (epair e1)) (flow nt (epair e2))) || pair_eqb (epair e1) (epair e2))
                             (link_edges g)) (link_edges g).
(* every interface has exactly one link in each direction *)
Definition single_attachb (g : graph) (c : compiled) : bool :=
  forallb (fun x => forallb (fun e =>
      (negb (str_eqb (e_src e) (cn_name x)) || pair_eqb (epair e) (cn_mgr_link x)) &&
      (negb (str_eqb (e_dst e) (cn_name x)) || pair_eqb (epair e) (cn_sbr_link x))) (link_edges g)) (c_nis c).
(* links join interfaces and routers only *)
Definition is_rtb (c : compiled) (u : string) : bool := existsb (fun r => str_eqb (cr_name r) u) (c_rts c).
Definition is_unitb (c : compiled) (u : string) : bool :=
  is_rtb c u || existsb (fun x => str_eqb (cn_name x) u) (c_nis c).
Definition links_typedb (g : graph) (c : compiled) : bool :=
  forallb (fun e => is_unitb c (e_src e) && is_unitb c (e_dst e)) (link_edges g).
(* port counts fit the 32-bit index field of a table rule *)
Definition degrees_fitb (c : compiled) : bool :=
  forallb (fun r => Z.of_nat (length (cr_out r)) <=? 2 ^ 32) (c_rts c).

(* ---------------------------------------------------------------- tree certificate (C09 for trees) *)
(* a depth for every unit; the certificate is CHECKED (tree_certb), how it was computed does not matter *)
Definition dep_of (dp : list (string * Z)) (u : string) : Z :=
  match find (fun p => str_eqb (fst p) u) dp with Some p => snd p | None => -1 end.
Definition goes_up (dp : list (string * Z)) (l : link) : bool := dep_of dp (snd l) <? dep_of dp (fst l).
Definition tree_certb (g : graph) (dp : list (string * Z)) : bool :=
  let L := map epair (link_edges g) in
  (* every link joins two units whose (non-negative) depths differ by one *)
  forallb (fun l => (0 <=? dep_of dp (fst l)) && (0 <=? dep_of dp (snd l)) &&
                    ((dep_of dp (snd l) =? dep_of dp (fst l) + 1) || (dep_of dp (fst l) =? dep_of dp (snd l) + 1))) L &&
  (* every unit has at most one neighbour above it *)
  forallb (fun l1 => forallb (fun l2 => negb (str_eqb (fst l1) (fst l2)) || negb (goes_up dp l1) || negb (goes_up dp l2)
                                        || str_eqb (snd l1) (snd l2)) L) L &&
  (* every link has its reverse *)
  forallb (fun l => existsb (pair_eqb (snd l, fst l)) L) L.

(* breadth-first levels: the certificate the harness offers *)
Definition add_new (acc : list string) (x : string) : list string := if existsb (str_eqb x) acc then acc else acc ++ [x].
Fixpoint bfs_levels (fuel : nat) (L : list link) (frontier : list string) (seen : list (string * Z)) (lvl : Z) : list (string * Z) :=
  match fuel with
  | O => seen
  | S f =>
      let nxt := fold_left add_new
                   (filter (fun v => negb (existsb (fun p => str_eqb (fst p) v) seen))
                           (flat_map (fun u => map snd (filter (fun l => str_eqb (fst l) u) L)) frontier)) [] in
      match nxt with
      | [] => seen
      | _ => bfs_levels f L nxt (seen ++ map (fun v => (v, lvl + 1)) nxt) (lvl + 1)
      end
  end.
(* one breadth-first search per connected component (a forest is certified as well) *)
Fixpoint forest_levels (L : list link) (cands : list string) (seen : list (string * Z)) : list (string * Z) :=
  match cands with
  | [] => seen
  | u :: rest =>
      if existsb (fun p => str_eqb (fst p) u) seen then forest_levels L rest seen
      else forest_levels L rest (bfs_levels (length L) L [u] (seen ++ [(u, 0)]) 0)
  end.
Definition levels (g : graph) : list (string * Z) :=
  let L := map epair (link_edges g) in forest_levels L (map fst L) [].
(* every interface injects into a router *)
Definition attach_of (nt : net) (x : cni) : link :=
  match nt with Rsp => (snd (cn_sbr_link x), fst (cn_sbr_link x)) | _ => cn_mgr_link x end.
Definition attachedb (c : compiled) (nt : net) : bool :=
  forallb (fun s0 => is_rtb c (snd (attach_of nt s0))) (c_nis c).
(* the first hop of every shortest path between two interfaces is the router the source injects into *)
Definition first_hopb (sp : oracle) (g : graph) (c : compiled) (nt : net) : bool :=
  forallb (fun s0 => forallb (fun t => str_eqb (cn_name s0) (cn_name t) ||
                                       match sp g (cn_name s0) (cn_name t) with
                                       | Some p => str_eqb (snd (attach_of nt s0)) (hd "" (tl p))
                                       | None => true
                                       end) (c_nis c)) (c_nis c).
(* shortest paths from every router to every interface exist and run through routers only *)
Definition transit_allb (sp : oracle) (c : compiled) : bool :=
  forallb (fun t => forallb (fun r => match sp (c_graph c) (cr_name r) (cn_name t) with
                                      | Some p => forallb (is_rtb c) (removelast p)
                                      | None => false
                                      end) (c_rts c)) (c_nis c).

(* the members of the endpoint enumeration are pairwise distinct (so a row selector denotes one interface) *)
Definition enum_names_nodupb (c : compiled) : bool :=
  let names := map (fun n => snake_to_camel (enum_name n)) (c_nis c) in
  nodupb str_eqb names && negb (existsb (str_eqb "NumEndpoints") names).

(* the hypotheses of C09_model_tree (ID) / C09_hw_tree_acyclic_src (SRC), in the order: tree certificate
   (breadth-first levels), routing by tables or source routes, transit (ID) / first hops (SRC; req, rsp),
   names (req, rsp), single attachment, typed links, degrees, attachment to routers (req, rsp), distinct enumeration
   names (SRC: a row selector denotes one interface) *)
Definition tree_conditions (sp : oracle) (d : desc) : res (list bool) :=
  do g <- build d; do c <- compile d g;
  if tree_certb g (levels g) then
    Ok [true; match d_algo d with XY => false | _ => true end;
        match d_algo d with SRC => first_hopb sp g c Req && first_hopb sp g c Rsp | _ => transit_allb sp c end;
        names_sepb g Req; names_sepb g Rsp;
        single_attachb g c; links_typedb g c; degrees_fitb c; attachedb c Req; attachedb c Rsp;
        match d_algo d with SRC => enum_names_nodupb c | _ => true end]
  else Ok [false].

(* the hypotheses of the hardware-level theorems C02_hw_delivered_nx / C03_hw_delivered_nx / C14_hw_shortest_nx and of
   C05_model_signals, in the order: names (req, rsp, wide), single attachment, typed links, degrees, attachment to
   routers (req, rsp), transit (ID) or first hops (SRC) for the given oracle *)
Definition side_conditions (sp : oracle) (d : desc) : res (list bool) :=
  do g <- build d; do c <- compile d g;
  Ok [names_sepb g Req; names_sepb g Rsp; negb (d_nw d) || names_sepb g Wide; single_attachb g c; links_typedb g c; degrees_fitb c;
      attachedb c Req; attachedb c Rsp;
      match d_algo d with
      | ID => transit_allb sp c
      | SRC => first_hopb sp g c Req && first_hopb sp g c Rsp
      | XY => true
      end].
