(* IdProofs.v — C07 on the model, ID / source routing: the identities of the network interfaces of every
   description that build and compile accept are pairwise distinct and are exactly 0 .. N-1, and the
   emitted identifier width covers them. *)
From FV Require Import Base AddrRange Graph Desc Build Netlist Compile Routing ModelBase BuildProofs ModelProofs.
From Coq Require Import ZifyBool.

Lemma index_of_nth l : forall x i, index_of str_eqb x l = Some i -> nth_error l i = Some x.
Proof.
  induction l as [|y ys IH]; intros x i H; cbn in H; [discriminate|].
  destruct (str_eqb x y) eqn:E.
  - inversion H; subst. apply String.eqb_eq in E. subst. reflexivity.
  - destruct (index_of str_eqb x ys) as [k|] eqn:K; [|discriminate]. inversion H; subst. cbn. apply IH. exact K.
Qed.
Lemma index_of_lt l : forall x i, index_of str_eqb x l = Some i -> (i < length l)%nat.
Proof. intros x i H. apply index_of_nth in H. apply nth_error_Some. congruence. Qed.

Lemma NoDup_map_eq {A B} (f : A -> B) l a b : NoDup (map f l) -> In a l -> In b l -> f a = f b -> a = b.
Proof.
  induction l as [|x xs IH]; cbn; intros Hn Ha Hb Hf; [destruct Ha|].
  inversion Hn as [|? ? Hx Hn']; subst.
  destruct Ha as [<-|Ha], Hb as [<-|Hb]; auto.
  - exfalso. apply Hx. rewrite Hf. apply in_map. exact Hb.
  - exfalso. apply Hx. rewrite <- Hf. apply in_map. exact Ha.
Qed.

Lemma NoDup_of_map {A B} (f : A -> B) l : NoDup (map f l) -> NoDup l.
Proof.
  induction l as [|x xs IH]; cbn; intros H; [constructor|]. inversion H; subst. constructor; [|auto].
  intros Hin. apply H2. apply in_map. exact Hin.
Qed.

Lemma NoDup_filter' {A} (p : A -> bool) l : NoDup l -> NoDup (filter p l).
Proof.
  induction 1 as [|x l Hx Hn IH]; cbn; [constructor|]. destruct (p x); [|exact IH].
  constructor; [|exact IH]. intros Hin. apply filter_In in Hin. tauto.
Qed.

Lemma Forall2_NoDup_map {A B C} (R : A -> B -> Prop) (f : B -> C) l l' :
  Forall2 R l l' -> NoDup l ->
  (forall x x' y y', In x l -> In x' l -> R x y -> R x' y' -> f y = f y' -> x = x') ->
  NoDup (map f l').
Proof.
  induction 1 as [|x y l l' Hxy Hr IH]; intros Hn Hinj; cbn; [constructor|].
  inversion Hn as [|? ? Hx Hn']; subst. constructor.
  - intros Hin. apply in_map_iff in Hin. destruct Hin as (y' & Hf & Hy').
    assert (exists x', In x' l /\ R x' y') as (x' & Hx' & Rx').
    { clear -Hr Hy'. induction Hr as [|a b l l' Hab _ IH]; [destruct Hy'|].
      destruct Hy' as [<-|Hy']; [exists a; cbn; auto|]. destruct (IH Hy') as (x' & ? & ?). exists x'. cbn. auto. }
    assert (x = x') by (eapply Hinj; cbn; eauto). subst. contradiction.
  - apply IH; [exact Hn'|]. intros. eapply Hinj; cbn; eauto.
Qed.

(* what compile_ni records about the node it compiles *)
Lemma compile_ni_spec d g ni x : compile_ni d g ni = Ok x ->
  cn_name x = n_name ni /\
  (exists i, index_of str_eqb (ep_nm (n_desc ni) (n_arr ni)) (map n_name (ep_nodes g)) = Some i /\ cn_uid x = Z.of_nat i) /\
  (d_algo d <> XY -> cn_id x = IdN (cn_uid x)).
Proof.
  unfold compile_ni. destruct (find_ep d (n_desc ni)) as [e|] eqn:Fe; [|discriminate].
  assert (Hname : ep_name e = n_desc ni).
  { unfold find_ep in Fe. apply find_some in Fe. destruct Fe as (_ & Hq). apply String.eqb_eq in Hq. exact Hq. }
  intros H. inv_bind H. inversion H; subst x; clear H. cbn. split; [reflexivity|]. split.
  - unfold uid_of in E. rewrite Hname in E. unfold ep_nm.
    destruct (n_arr ni); destruct (index_of _ _ _) as [i|]; try discriminate; inversion E; subst; eauto.
  - intros Hxy. unfold ni_id in E0. destruct (d_algo d); [congruence| |]; inversion E0; reflexivity.
Qed.

Section Ids.
  Variables (d : desc) (g : graph) (c : compiled).
  Hypothesis Hb : build d = Ok g.
  Hypothesis Hc : compile d g = Ok c.

  Lemma ni_nodes_nodup : NoDup (nodes_of_type g NNi).
  Proof. apply NoDup_filter'. apply (NoDup_of_map n_name). apply (build_nodup d). exact Hb. Qed.

  (* two interface nodes that look up the same endpoint node are the same node *)
  Lemma ni_lookup_inj n1 n2 :
    In n1 (nodes_of_type g NNi) -> In n2 (nodes_of_type g NNi) ->
    ep_nm (n_desc n1) (n_arr n1) = ep_nm (n_desc n2) (n_arr n2) -> n1 = n2.
  Proof.
    intros H1 H2 Heq. apply filter_In in H1. apply filter_In in H2. destruct H1 as (I1 & T1), H2 as (I2 & T2).
    assert (n_type n1 = NNi) by (destruct (n_type n1); cbn in T1; congruence).
    assert (n_type n2 = NNi) by (destruct (n_type n2); cbn in T2; congruence).
    destruct (build_ni_wf _ _ Hb) as (Hw & _).
    destruct (Hw n1 I1 H) as (N1 & e1 & E1 & _ & En1 & Ed1 & Ea1).
    destruct (Hw n2 I2 H0) as (N2 & e2 & E2 & _ & En2 & Ed2 & Ea2).
    pose proof (build_nodup _ _ Hb) as Hnd. unfold names in Hnd.
    assert (e1 = e2) by (eapply NoDup_map_eq; eauto; congruence). subst e2.
    eapply NoDup_map_eq; [exact Hnd|exact I1|exact I2|]. rewrite N1, N2. congruence.
  Qed.

  Theorem uids_distinct : NoDup (map cn_uid (c_nis c)).
  Proof.
    destruct (compile_inv _ _ _ Hc) as (dirs & nis & rts & rids & Hn & _ & ->). cbn.
    apply mapM_Forall2 in Hn.
    eapply Forall2_NoDup_map; [exact Hn|exact ni_nodes_nodup|].
    intros x x' y y' Hx Hx' Rx Rx' Hu.
    destruct (compile_ni_spec _ _ _ _ Rx) as (_ & (i & Hi & Ui) & _).
    destruct (compile_ni_spec _ _ _ _ Rx') as (_ & (i' & Hi' & Ui') & _).
    assert (i = i') by lia. subst i'.
    apply index_of_nth in Hi. apply index_of_nth in Hi'.
    apply ni_lookup_inj; [exact Hx|exact Hx'|congruence].
  Qed.

  Theorem uids_range : forall n, In n (c_nis c) -> 0 <= cn_uid n < Z.of_nat (length (c_nis c)).
  Proof.
    destruct (compile_inv _ _ _ Hc) as (dirs & nis & rts & rids & Hn & _ & ->). cbn. intros n Hin.
    destruct (mapM_In _ _ _ _ Hn Hin) as (x & _ & Hx).
    destruct (compile_ni_spec _ _ _ _ Hx) as (_ & (i & Hi & Ui) & _).
    apply index_of_lt in Hi. rewrite map_length in Hi.
    destruct (build_ni_wf _ _ Hb) as (_ & Hcnt). unfold ep_nodes in Hi.
    rewrite (mapM_length _ _ _ Hn). lia.
  Qed.

  (* pigeonhole: N distinct values inside [0, N) are all of [0, N) *)
  Theorem uids_dense : forall u, 0 <= u < Z.of_nat (length (c_nis c)) -> exists n, In n (c_nis c) /\ cn_uid n = u.
  Proof.
    intros u Hu.
    assert (Hincl : incl (map Z.of_nat (seq 0 (length (c_nis c)))) (map cn_uid (c_nis c))).
    { apply NoDup_length_incl; [exact uids_distinct|rewrite !map_length, seq_length; lia|].
      intros z Hz. apply in_map_iff in Hz. destruct Hz as (n & <- & Hn). pose proof (uids_range n Hn) as Hr.
      apply in_map_iff. exists (Z.to_nat (cn_uid n)). split; [lia|]. apply in_seq. lia. }
    assert (Hin : In u (map Z.of_nat (seq 0 (length (c_nis c))))).
    { apply in_map_iff. exists (Z.to_nat u). split; [lia|]. apply in_seq. lia. }
    apply Hincl in Hin. apply in_map_iff in Hin. destruct Hin as (n & Hn & Hi). eauto.
  Qed.

  Theorem ids_are_uids : d_algo d <> XY -> forall n, In n (c_nis c) -> cn_id n = IdN (cn_uid n).
  Proof.
    intros Hxy. destruct (compile_inv _ _ _ Hc) as (dirs & nis & rts & rids & Hn & _ & ->). cbn. intros n Hin.
    destruct (mapM_In _ _ _ _ Hn Hin) as (x & _ & Hx). apply (compile_ni_spec _ _ _ _ Hx). exact Hxy.
  Qed.

  Theorem ids_distinct : d_algo d <> XY -> NoDup (map cn_id (c_nis c)).
  Proof.
    intros Hxy. pose proof uids_distinct as Hu. pose proof (ids_are_uids Hxy) as Hi.
    induction (c_nis c) as [|x xs IH]; cbn; [constructor|]. cbn in Hu. inversion Hu as [|? ? Hx Hu']; subst.
    constructor.
    - intros Hin. apply in_map_iff in Hin. destruct Hin as (y & Hy & Hyin). apply Hx.
      rewrite (Hi x (or_introl eq_refl)), (Hi y (or_intror Hyin)) in Hy. inversion Hy. apply in_map_iff. eauto.
    - apply IH; [exact Hu'|]. intros n Hn. apply Hi. right. exact Hn.
  Qed.
End Ids.

(* the emitted identifier type is wide enough: N <= 2 ^ id_bits *)
Theorem id_bits_cover sp c ri : gen_routing_info sp c = Ok ri ->
  ri_num_ep ri = Z.of_nat (length (c_nis c)) /\ 0 < ri_num_ep ri <= 2 ^ ri_id_bits ri.
Proof.
  unfold gen_routing_info. destruct (Z.of_nat (length (c_nis c)) =? 0) eqn:E0; [discriminate|].
  intros H. inv_bind H. inversion H; subst; cbn. split; [reflexivity|].
  split; [lia|apply clog2_spec; lia].
Qed.

(* router names of a compiled network are pairwise distinct (discharges a hypothesis of the C02 theorem) *)
Lemma zip_fst_incl {A B} (l : list A) (r : list B) x : In x (map fst (zip l r)) -> In x l.
Proof.
  revert r. induction l as [|a l IH]; intros [|b r]; cbn; try tauto.
  intros [<-|H]; [auto|right; eapply IH; eauto].
Qed.
Lemma zip_fst_nodup {A B C} (f : A -> C) (l : list A) (r : list B) : NoDup (map f l) -> NoDup (map f (map fst (zip l r))).
Proof.
  revert r. induction l as [|a l IH]; intros [|b r] H; cbn; try constructor.
  - inversion H; subst. intros Hin. apply in_map_iff in Hin. destruct Hin as (x & Hx & Hin).
    apply zip_fst_incl in Hin. apply H2. rewrite <- Hx. apply in_map. exact Hin.
  - inversion H; subst. apply IH. assumption.
Qed.

Theorem built_router_names_nodup d g c : build d = Ok g -> compile d g = Ok c -> NoDup (map cr_name (c_rts c)).
Proof.
  intros Hb Hc. destruct (compile_inv _ _ _ Hc) as (dirs & nis & rts & rids & _ & Hr & ->). cbn.
  assert (Hmap : forall z rts0, Forall2 (fun p r => compile_router d g (fst p) (snd p) = Ok r) z rts0 ->
                 map cr_name rts0 = map n_name (map fst z)).
  { intros z rts0 HF. induction HF as [|p r l l' Hpr _ IH]; cbn; [reflexivity|].
    apply compile_router_in_ends in Hpr. destruct Hpr as (Hnm & _). rewrite Hnm, IH. reflexivity. }
  apply mapM_Forall2 in Hr. apply Hmap in Hr. clear Hmap. rename Hr into Hmap.
  rewrite Hmap. apply zip_fst_nodup.
  pose proof (build_nodup d g Hb) as Hn. unfold names in Hn. unfold nodes_of_type.
  clear -Hn. induction (g_nodes g) as [|x xs IH]; cbn; [constructor|]. cbn in Hn. inversion Hn; subst.
  destruct (ntype_eqb (n_type x) NRouter); [|apply IH; assumption]. cbn. constructor; [|apply IH; assumption].
  intros Hin. apply H1. apply in_map_iff in Hin. destruct Hin as (y & Hy & Hyin). apply filter_In in Hyin.
  rewrite <- Hy. apply in_map. tauto.
Qed.

(* ------------------------------------------------------------------ C07, XY part: coordinates fit *)
Lemma fold_min_init l init : fold_left Z.min l init <= init.
Proof. revert init. induction l as [|y ys IH]; intros init; cbn; [lia|]. specialize (IH (Z.min init y)). lia. Qed.
Lemma fold_min_le l init x : In x l -> fold_left Z.min l init <= x.
Proof.
  revert init. induction l as [|y ys IH]; intros init; cbn; [tauto|].
  intros [<-|H]; [|apply IH; exact H]. pose proof (fold_min_init ys (Z.min init y)). lia.
Qed.
Lemma zmin_le l m x : zmin l = Ok m -> In x l -> m <= x.
Proof.
  destruct l as [|a l]; cbn; [discriminate|]. intros H; inversion H; subst; clear H.
  intros [<-|Hx]; [apply fold_min_init|apply fold_min_le; exact Hx].
Qed.
Lemma zmax_ge l m x : zmax l = Ok m -> In x l -> x <= m.
Proof.
  destruct l as [|a l]; cbn; [discriminate|]. intros H; inversion H; subst; clear H.
  intros [<-|Hx]; [apply fold_max_init|apply fold_max_ge; exact Hx].
Qed.

Theorem xy_coordinates_fit c xb yb ab ox oy :
  gen_xy c = Ok (xb, (yb, (ab, (ox, oy)))) ->
  (forall n, In n (c_nis c) -> exists x y p, cn_id n = IdXY x y p /\ 0 <= x - ox < 2 ^ xb /\ 0 <= y - oy < 2 ^ yb) /\
  (forall r, In r (c_rts c) -> exists x y p, cr_id r = Some (IdXY x y p) /\ 0 <= x - ox < 2 ^ xb /\ 0 <= y - oy < 2 ^ yb).
Proof.
  unfold gen_xy. intros H. inv_bind H.
  assert (Hall : forall x y, In (x, y) (a ++ a0) ->
            0 <= x - a1 < 2 ^ clog2 (a3 - a1 + 1) /\ 0 <= y - a2 < 2 ^ clog2 (a4 - a2 + 1)).
  { intros x y Hin.
    pose proof (zmin_le _ _ x E1 (in_map fst _ _ Hin)) as X1. pose proof (zmax_ge _ _ x E3 (in_map fst _ _ Hin)) as X2.
    pose proof (zmin_le _ _ y E2 (in_map snd _ _ Hin)) as Y1. pose proof (zmax_ge _ _ y E4 (in_map snd _ _ Hin)) as Y2.
    cbn [fst snd] in *.
    pose proof (clog2_spec (a3 - a1 + 1)). pose proof (clog2_spec (a4 - a2 + 1)). lia. }
  inversion H; subst xb yb ab ox oy; clear H.
  split.
  - intros n Hn. destruct (mapM_In_l _ _ _ _ E Hn) as ([x y] & Hy & Hxy). unfold idx_xy in Hxy.
    destruct (cn_id n) as [|x' y' p] eqn:Ei; [discriminate|]. inversion Hxy; subst.
    exists x, y, p. split; [reflexivity|]. apply Hall. apply in_app_iff. left. exact Hy.
  - intros r Hr. destruct (mapM_In_l _ _ _ _ E0 Hr) as ([x y] & Hy & Hxy). cbv beta in Hxy.
    destruct (cr_id r) as [[|x' y' p]|] eqn:Ei; try discriminate. cbn in Hxy. inversion Hxy; subst.
    exists x, y, p. split; [reflexivity|]. apply Hall. apply in_app_iff. right. exact Hy.
Qed.

Lemma gri_xy sp c ri v : gen_routing_info sp c = Ok ri -> ri_xy ri = Some v -> gen_xy c = Ok v.
Proof.
  unfold gen_routing_info. destruct (Z.of_nat (length (c_nis c)) =? 0); [discriminate|].
  intros H. inv_bind H. inversion H; subst; cbn. intros ->.
  destruct (d_algo (c_desc c)); try discriminate.
  match goal with E : bind (gen_xy c) _ = Ok (Some _) |- _ => inv_bind E; inversion E; subst end.
  match goal with E : gen_xy c = Ok _ |- _ => exact E end.
Qed.

(* ------------------------------------------------------------------ C07, XY part: coordinates distinct *)
From FV Require Import RouteMap Hw Check CheckProofs.

Definition id_stage (d : desc) (g : graph) (ni : node) : res idv :=
  match find_ep d (n_desc ni) with
  | Some e =>
      let ep_node := match n_arr ni with Some idx => full_name (ep_name e) idx | None => ep_name e end in
      do uid <- uid_of g ep_node; ni_id g d ni uid
  | None => Err "network interface without descriptor"
  end.

Lemma compile_ni_id d g ni x : compile_ni d g ni = Ok x -> id_stage d g ni = Ok (cn_id x).
Proof.
  unfold compile_ni, id_stage. destruct (find_ep d (n_desc ni)) as [e|]; [|discriminate].
  intros H. inv_bind H. inversion H; subst x; clear H. cbn [cn_id]. cbv zeta. rewrite E. cbn [bind]. exact E0.
Qed.

Theorem xy_ids_distinct d g c : compile d g = Ok c -> d_algo d = XY -> NoDup (map cn_id (c_nis c)).
Proof.
  intros Hc Hxy. unfold compile in Hc. inv_bind Hc. inversion Hc; subst c; clear Hc. cbn [c_nis].
  match goal with E : mapM _ (nodes_of_type g NNi) = Ok ?l, E' : match d_algo d with XY => _ | _ => _ end = Ok _ |- _ =>
    match type of l with list idv => rename E into Hi; rename l into ids; rename E' into Hnd end end.
  match goal with E : mapM (compile_ni d g) _ = Ok ?l |- _ => rename E into Hn; rename l into nis end.
  rewrite Hxy in Hnd. destruct (nodupb idv_eqb ids) eqn:N; [|discriminate].
  assert (Heq : map cn_id nis = ids).
  { apply mapM_Forall2 in Hn. apply mapM_Forall2 in Hi. clear N Hnd. revert ids Hi. clear -Hn.
    induction Hn as [|ni x l l' Hx _ IH]; intros ids Hi; inversion Hi; subst; cbn; [reflexivity|].
    apply compile_ni_id in Hx. fold (id_stage d g ni) in *. rewrite Hx in H1. inversion H1; subst. f_equal. apply (IH _ H3). }
  rewrite Heq. apply nodupb_idv. exact N.
Qed.
