(* Proofs about AddrRange.v (C17). *)
From FV Require Import Base AddrRange.
From Coq Require Import ZifyBool.

(* Independent specification of what a construction denotes, written from the property text:
   base+size win (index defaulting to 0); else start+end (a given size must agree);
   else start+size. *)
Definition spec_bounds (s e z b i : option Z) : option (Z * Z * Z) :=
  match z, b with
  | Some sz, Some ba => let st := ba + opt_default 0 i * sz in Some (st, st + sz, sz)
  | _, _ =>
      match s, e with
      | Some st, Some en =>
          match z with
          | Some sz => if en - st =? sz then Some (st, en, sz) else None
          | None => Some (st, en, en - st)
          end
      | Some st, None => match z with Some sz => Some (st, st + sz, sz) | None => None end
      | _, _ => None
      end
  end.

Definition sufficient (s e z b : option Z) : bool :=
  (is_some z && is_some b) || (is_some s && is_some e) || (is_some s && is_some z).

Ltac zeq := match goal with
  | |- @eq Z _ _ => lia
  | |- _ => reflexivity
  | |- _ => f_equal; zeq
  end.
Ltac c17_fin := repeat split; try reflexivity; try lia; try congruence; try zeq.

Lemma mk_range_char s e z b i r :
  mk_range s e z b i = Ok r <->
  (spec_bounds s e z b i = Some (r_start r, r_end r, r_size r) /\
   0 <= r_start r < r_end r /\ r_base r = b /\ r_idx r = i).
Proof.
  unfold mk_range, validate_input, spec_bounds, bind.
  destruct r as [rs re rz rb ri]; cbn [r_start r_end r_size r_base r_idx].
  destruct z as [sz|], b as [ba|], i as [ix|], s as [st|], e as [en|]; cbn [opt_default];
    repeat match goal with
    | |- context [if ?c then _ else _] => destruct c eqn:?
    end;
    (split; [intros H; try discriminate H; inversion H; subst; clear H; c17_fin
            |intros (H1 & H2 & H3 & H4); try discriminate H1; inversion H1; subst; clear H1;
             try (exfalso; lia); c17_fin]).
Qed.

Lemma mk_range_wf s e z b i r :
  mk_range s e z b i = Ok r ->
  0 <= r_start r < r_end r /\ r_end r - r_start r = r_size r /\ r_base r = b /\ r_idx r = i /\
  (forall b0 z0, b = Some b0 -> z = Some z0 ->
     r_start r = b0 + opt_default 0 i * z0 /\ r_size r = z0).
Proof.
  intros H. apply mk_range_char in H. destruct H as (Hs & Hb & Hba & Hix).
  unfold spec_bounds in Hs.
  split; [exact Hb|]. split; [|split; [exact Hba|split; [exact Hix|]]].
  - destruct z as [sz|], b as [ba|], s as [st|], e as [en|];
      repeat match type of Hs with context [if ?c then _ else _] => destruct c eqn:? end;
      inversion Hs; lia.
  - intros b0 z0 -> ->. inversion Hs. lia.
Qed.

Lemma mk_range_accepts s e z b i st en sz :
  spec_bounds s e z b i = Some (st, en, sz) -> 0 <= st < en ->
  mk_range s e z b i = Ok {| r_start := st; r_end := en; r_size := sz; r_base := b; r_idx := i |}.
Proof.
  intros Hs Hb. apply mk_range_char; cbn. auto.
Qed.

Lemma mk_range_rejects_insufficient s e z b i :
  sufficient s e z b = false -> exists msg, mk_range s e z b i = Err msg.
Proof.
  unfold sufficient, mk_range, validate_input, bind.
  destruct z, b, i, s, e; cbn; intros H; try discriminate; eauto.
Qed.

Lemma mk_range_rejects_unspecified s e z b i :
  spec_bounds s e z b i = None -> exists msg, mk_range s e z b i = Err msg.
Proof.
  intros Hs. destruct (mk_range s e z b i) as [r|msg] eqn:E; [|eauto].
  apply mk_range_char in E. destruct E as (E & _). congruence.
Qed.

Lemma mk_range_rejects_contradictory st en sz i :
  en - st <> sz -> exists msg, mk_range (Some st) (Some en) (Some sz) None i = Err msg.
Proof.
  intros H. apply mk_range_rejects_unspecified. unfold spec_bounds.
  destruct (en - st =? sz) eqn:E; [lia|reflexivity].
Qed.

Lemma mk_range_rejects_bad_bounds s e z b i st en sz :
  spec_bounds s e z b i = Some (st, en, sz) -> ~ (0 <= st < en) ->
  exists msg, mk_range s e z b i = Err msg.
Proof.
  intros Hs Hb. destruct (mk_range s e z b i) as [r|msg] eqn:E; [|eauto].
  apply mk_range_char in E. destruct E as (E & Hb' & _). rewrite Hs in E. inversion E; subst. lia.
Qed.

Lemma set_idx_based r k b0 :
  r_base r = Some b0 ->
  exists r', set_idx r k = Ok r' /\ r_start r' = b0 + k * r_size r /\
             r_end r' = b0 + (k + 1) * r_size r /\ r_size r' = r_size r /\
             r_base r' = Some b0 /\ r_idx r' = Some k.
Proof.
  intros Hb. unfold set_idx. rewrite Hb. eexists; split; [reflexivity|]. cbn. repeat split; try lia; try exact Hb.
Qed.

Lemma set_idx_unbased r k : r_base r = None -> exists msg, set_idx r k = Err msg.
Proof. intros Hb. unfold set_idx. rewrite Hb. eauto. Qed.
