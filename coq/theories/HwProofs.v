(* HwProofs.v — the hardware semantics (Hw.v) evaluated on what the model emits: one routing decision of an
   emitted router under IdTable routing is the model's table lookup, and the signals of the emitted
   instances lead to the units the compiled port arrays name. *)
From FV Require Import Base AddrRange RouteMap RouteMapProofs Graph Desc Build Netlist Compile Routing Emit Hw Side
     ModelBase BuildProofs Check CheckProofs PathProofs ModelProofs IdProofs.
From Coq Require Import ZifyBool.

(* the table lookup of the model at router r for destination id: a port that holds the link to the
   oracle's next hop *)
Lemma id_table_port sp c ri t id r :
  d_algo (c_desc c) = ID -> gen_routing_info sp c = Ok ri -> NoDup (map cr_name (c_rts c)) ->
  In t (c_nis c) -> id_num (cn_id t) = Ok id -> In r (c_rts c) ->
  exists h nxt rest k rules ru,
    sp (c_graph c) (cr_name r) (cn_name t) = Some (h :: nxt :: rest) /\
    nth_error (cr_out r) k = Some (Some (cr_name r, nxt)) /\
    find (fun p => str_eqb (fst p) (cr_name r)) (ri_tables ri) = Some (cr_name r, rules) /\
    filter (fun ru => matchesb ru id) rules = [ru] /\ dest ru = Z.of_nat k.
Proof.
  intros Ha Hr Hnd Ht Hid Hin.
  destruct (gri_inv _ _ _ Hr) as (_ & _ & _ & Htab & _). specialize (Htab Ha).
  destruct (mapM_In_l _ _ _ _ Htab Hin) as (e & Hein & Ee). inv_bind Ee. inversion Ee; subst e; clear Ee.
  destruct (gen_table_port _ _ _ _ _ _ E Ht Hid) as (h & nxt & rest & k & ru & Hsp & Hn & Hf & Hd).
  exists h, nxt, rest, k, a, ru. split; [exact Hsp|]. split; [exact Hn|]. split; [|split; [exact Hf|exact Hd]].
  assert (Hkeys : map fst (ri_tables ri) = map cr_name (c_rts c)).
  { eapply mapM_keys; [exact Htab|]. intros x y Hy. cbv beta in Hy. inv_bind Hy. inversion Hy. reflexivity. }
  assert (Hnd' : NoDup (map fst (ri_tables ri))) by (rewrite Hkeys; exact Hnd).
  apply (find_key_unique fst (ri_tables ri) (cr_name r, a) Hnd' Hein).
Qed.

(* one routing decision of the emitted router instance (floo_route_select, IdTable) *)
Theorem hw_select_id sp c ri n t id r x :
  d_algo (c_desc c) = ID -> gen_routing_info sp c = Ok ri -> NoDup (map cr_name (c_rts c)) ->
  In t (c_nis c) -> id_num (cn_id t) = Ok id -> In r (c_rts c) ->
  emit_rt (c_desc c) ri r = Ok x -> Z.of_nat (length (cr_out r)) <= 2 ^ 32 ->
  exists h nxt rest k,
    sp (c_graph c) (cr_name r) (cn_name t) = Some (h :: nxt :: rest) /\
    nth_error (cr_out r) k = Some (Some (cr_name r, nxt)) /\
    select n x (HId id) = Ok (Z.of_nat k, HId id).
Proof.
  intros Ha Hr Hnd Ht Hid Hin Hx Hdeg.
  destruct (id_table_port sp c ri t id r Ha Hr Hnd Ht Hid Hin) as (h & nxt & rest & k & rules & ru & Hsp & Hn & Hf & Hm & Hd).
  exists h, nxt, rest, k. split; [exact Hsp|]. split; [exact Hn|].
  unfold emit_rt in Hx. cbv zeta in Hx. inv_bind Hx. inversion Hx; subst x; clear Hx.
  unfold select. cbn [r_map]. rewrite Ha, Hf. rewrite Hm, Hd. unfold trunc.
  assert (k < length (cr_out r))%nat by (apply nth_error_Some; congruence).
  rewrite Z.mod_small by lia. reflexivity.
Qed.

(* ------------------------------------------------------------------ strings *)
Lemma sapp_inj_l a b c : a +++ b = a +++ c -> b = c.
Proof. induction a as [|x a IH]; cbn; [auto|]. intros H. inversion H. auto. Qed.
Lemma sapp_length a b : String.length (a +++ b) = (String.length a + String.length b)%nat.
Proof. induction a as [|x a IH]; cbn; [reflexivity|]. rewrite IH. reflexivity. Qed.
Lemma sapp_inj_r s : forall b c, b +++ s = c +++ s -> b = c.
Proof.
  induction b as [|x b IH]; intros c H.
  - destruct c as [|y c]; [reflexivity|]. exfalso. apply (f_equal String.length) in H. cbn in H. rewrite sapp_length in H. lia.
  - destruct c as [|y c].
    + exfalso. apply (f_equal String.length) in H. cbn in H. rewrite sapp_length in H. lia.
    + cbn in H. inversion H. f_equal. apply IH. assumption.
Qed.
Lemma sapp_assoc' a b c : (a +++ b) +++ c = a +++ (b +++ c).
Proof. induction a as [|x a IH]; cbn; [reflexivity|]. rewrite IH. reflexivity. Qed.

(* a request signal name determines its far end once the near end is known, and vice versa *)
Lemma req_name_dst u v w : req_name (u, v) = u +++ "_to_" +++ w +++ "_req" -> v = w.
Proof.
  unfold req_name. cbn [fst snd]. intros H. apply sapp_inj_l in H. apply sapp_inj_l in H.
  apply (sapp_inj_r "_req"). exact H.
Qed.
Lemma req_name_src u v w : req_name (u, v) = req_name (w, v) -> u = w.
Proof.
  unfold req_name. cbn [fst snd]. intros H. apply (sapp_inj_r ("_to_" +++ v +++ "_req")). exact H.
Qed.

Lemma flow_req l : flow Req l = req_name l.
Proof. reflexivity. Qed.
Lemma flow_rsp l : flow Rsp (rev_link l) = rsp_name l.
Proof. reflexivity. Qed.
Lemma flow_dst nt u v w : flow nt (u, v) = u +++ "_to_" +++ w +++ "_" +++ net_name nt -> v = w.
Proof.
  unfold flow. cbn [fst snd]. intros H. apply sapp_inj_l in H. apply sapp_inj_l in H.
  apply (sapp_inj_r ("_" +++ net_name nt)). exact H.
Qed.
Lemma flow_src nt u v w : flow nt (u, v) = flow nt (w, v) -> u = w.
Proof. unfold flow. cbn [fst snd]. intros H. apply (sapp_inj_r ("_to_" +++ v +++ "_" +++ net_name nt)). exact H. Qed.

(* the physical networks of a description: request and response always, wide in narrow-wide networks *)
Definition net_ok (d : desc) (nt : net) : Prop := nt = Req \/ nt = Rsp \/ (nt = Wide /\ d_nw d = true).
Lemma flow_wide l : flow Wide l = wide_name l.
Proof. reflexivity. Qed.
Lemma net_of_type_nt nt : net_of_type (net_type nt) = Some nt.
Proof. destruct nt; reflexivity. Qed.

(* ------------------------------------------------------------------ the emitted instances *)
Section Emitted.
  Variables (c : compiled) (ri : rinfo) (n : netlist).
  Hypothesis He : emit c ri = Ok n.
  Hypothesis Hnd : NoDup (map cr_name (c_rts c)).

  Lemma emitted_rt r : In r (c_rts c) ->
    exists x, emit_rt (c_desc c) ri r = Ok x /\ find_rt n (cr_name r) = Some x /\ r_name x = cr_name r /\
              r_req_out x = out_sig req_name (cr_out r) /\ r_req_in x = in_src req_name (cr_in r) /\
              r_rsp_out x = out_sig rsp_name (cr_in r) /\ r_rsp_in x = in_src rsp_name (cr_out r) /\
              r_wide_out x = (if d_nw (c_desc c) then out_sig wide_name (cr_out r) else []) /\
              r_wide_in x = (if d_nw (c_desc c) then in_src wide_name (cr_in r) else []).
  Proof.
    intros Hr. destruct (emit_inv _ _ _ He) as (_ & axi & rts & _ & Hrts & ->).
    destruct (mapM_In_l _ _ _ _ Hrts Hr) as (x & Hx & Ex). exists x. split; [exact Ex|].
    assert (Hname : forall r0 x0, emit_rt (c_desc c) ri r0 = Ok x0 -> r_name x0 = cr_name r0 /\
              r_req_out x0 = out_sig req_name (cr_out r0) /\ r_req_in x0 = in_src req_name (cr_in r0) /\
              r_rsp_out x0 = out_sig rsp_name (cr_in r0) /\ r_rsp_in x0 = in_src rsp_name (cr_out r0) /\
              r_wide_out x0 = (if d_nw (c_desc c) then out_sig wide_name (cr_out r0) else []) /\
              r_wide_in x0 = (if d_nw (c_desc c) then in_src wide_name (cr_in r0) else [])).
    { intros r0 x0 H0. unfold emit_rt in H0. cbv zeta in H0. inv_bind H0. inversion H0; subst; cbn. auto 8. }
    destruct (Hname r x Ex) as (N1 & N2 & N3 & N4 & N5 & N6 & N7). split; [|auto 8].
    unfold find_rt. cbn [n_rts].
    assert (Hkeys : map r_name rts = map cr_name (c_rts c)).
    { apply mapM_Forall2 in Hrts. clear -Hrts Hname. induction Hrts as [|a b l l' Hab _ IH]; cbn; [reflexivity|].
      rewrite IH. f_equal. apply (Hname a b Hab). }
    rewrite <- N1. apply (find_key_unique r_name rts x); [rewrite Hkeys; exact Hnd|exact Hx].
  Qed.

  Lemma emitted_links u v : (exists e, In e (g_edges (c_graph c)) /\ is_link e = true /\ e_src e = u /\ e_dst e = v) ->
    ends_exist (c_graph c) ->
    In ("floo_req_t", req_name (u, v)) (n_links n) /\ In ("floo_rsp_t", rsp_name (u, v)) (n_links n) /\
    (d_nw (c_desc c) = true -> In ("floo_wide_t", wide_name (u, v)) (n_links n)).
  Proof.
    intros (e & Hin & Hl & Hu & Hv) Hends. destruct (emit_inv _ _ _ He) as (_ & axi & rts & _ & _ & ->). cbn [n_links].
    unfold emit_links.
    assert (Hev : In e (filter is_link (edges_view (c_graph c)))) by (apply filter_In; split; [apply (edges_view_In _ _ Hends); exact Hin|exact Hl]).
    split; [|split; [|intros Hnw]]; apply in_flat_map; exists e; (split; [exact Hev|]).
    - cbn. left. rewrite Hu, Hv. reflexivity.
    - cbn. right. left. rewrite Hu, Hv. reflexivity.
    - cbn. right. right. rewrite Hnw. left. rewrite Hu, Hv. reflexivity.
  Qed.

  Lemma emitted_nis : n_nis n = map (emit_ni (c_desc c) (ri_offset ri)) (c_nis c).
  Proof. destruct (emit_inv _ _ _ He) as (_ & axi & rts & _ & _ & ->). reflexivity. Qed.
End Emitted.

(* ------------------------------------------------------------------ drivers and readers *)
Lemma enumerate_from_nth {A} (l : list A) : forall k i a, In (i, a) (enumerate_from k l) <-> (k <= i)%nat /\ nth_error l (i - k) = Some a.
Proof.
  induction l as [|x xs IH]; intros k i a; cbn [enumerate_from In].
  - split; [tauto|]. intros (_ & H). destruct (i - k)%nat; discriminate.
  - rewrite IH. split.
    + intros [H|(H1 & H2)].
      * inversion H; subst. split; [lia|]. rewrite Nat.sub_diag. reflexivity.
      * split; [lia|]. replace (i - k)%nat with (S (i - S k)) by lia. exact H2.
    + intros (H1 & H2). destruct (Nat.eq_dec i k) as [->|Hne].
      * left. rewrite Nat.sub_diag in H2. cbn in H2. congruence.
      * right. split; [lia|]. replace (i - k)%nat with (S (i - S k)) in H2 by lia. exact H2.
Qed.
Lemma enumerate_nth {A} (l : list A) i a : In (i, a) (enumerate l) <-> nth_error l i = Some a.
Proof. unfold enumerate. rewrite enumerate_from_nth, Nat.sub_0_r. split; [tauto|]. intros H; split; [lia|exact H]. Qed.

Lemma slot_refs_In {T} (hit : T -> bool) name slots u :
  In u (slot_refs hit name slots) <-> exists i sl, u = URt name i /\ nth_error slots i = Some sl /\ existsb hit sl = true.
Proof.
  unfold slot_refs. rewrite in_flat_map. split.
  - intros ([i sl] & Hin & Hu). cbn [fst snd] in Hu. destruct (existsb hit sl) eqn:E; [|destruct Hu].
    destruct Hu as [<-|[]]. apply enumerate_nth in Hin. eauto.
  - intros (i & sl & -> & Hn & He). exists (i, sl). split; [apply enumerate_nth; exact Hn|]. cbn [fst snd]. rewrite He. left. reflexivity.
Qed.

Lemma driver_rt n x k s : In x (n_rts n) -> nth_error (r_req_out x) k = Some [s] -> In (URt (r_name x) k) (drivers n Req s).
Proof.
  intros Hx Hk. unfold drivers. apply in_app_iff. right. apply in_flat_map. exists x. split; [exact Hx|].
  apply slot_refs_In. exists k, [s]. split; [reflexivity|]. split; [exact Hk|]. cbn [existsb]. apply orb_true_iff. left. apply str_eqb_eq. reflexivity.
Qed.

Lemma reader_cases n s u : In u (readers n Req s) ->
  (exists y, In y (n_nis n) /\ u = UNi (ni_name y) /\ ni_req_i y = s) \/
  (exists x i sl, In x (n_rts n) /\ u = URt (r_name x) i /\ nth_error (r_req_in x) i = Some sl /\ In (SSig s) sl).
Proof.
  unfold readers. intros H. apply in_app_iff in H. destruct H as [H|H].
  - left. apply in_flat_map in H. destruct H as (y & Hy & Hu). cbn [ni_in opt_is] in Hu.
    destruct (str_eqb s (ni_req_i y)) eqn:E; [|destruct Hu]. destruct Hu as [<-|[]].
    apply String.eqb_eq in E. eauto.
  - right. apply in_flat_map in H. destruct H as (x & Hx & Hu). apply slot_refs_In in Hu.
    destruct Hu as (i & sl & -> & Hn & He). cbn [rt_ins] in Hn. exists x, i, sl. split; [exact Hx|]. split; [reflexivity|].
    split; [exact Hn|]. apply existsb_exists in He. destruct He as (z & Hz & Hs). destruct z as [z|]; [|discriminate].
    cbn in Hs. apply String.eqb_eq in Hs. subst. exact Hz.
Qed.

(* ------------------------------------------------------------------ compile-level facts *)
Lemma edges_view_sub g e : In e (edges_view g) -> In e (g_edges g).
Proof. unfold edges_view. intros H. apply in_flat_map in H. destruct H as (n & _ & Hf). apply filter_In in Hf. tauto. Qed.

Definition is_link_of (g : graph) (l : link) : Prop :=
  exists e, In e (g_edges g) /\ is_link e = true /\ e_src e = fst l /\ e_dst e = snd l.

Lemma compile_router_in_links d g rt rid r :
  compile_router d g rt rid = Ok r -> slots_all (is_link_of g) (cr_in r).
Proof.
  unfold compile_router. cbv zeta. set (nm := n_name rt).
  set (ins := filter is_link (edges_to g nm)).
  match goal with |- (if ?c then _ else _) = _ -> _ => destruct c; [discriminate|] end.
  intros H. inv_bind H.
  assert (Hins : forall e, In e ins -> is_link_of g (e_src e, e_dst e)).
  { intros e He. apply filter_In in He. destruct He as (He & Hl). unfold edges_to in He. apply filter_In in He.
    destruct He as (He & _). apply edges_view_sub in He. exists e. cbn. auto. }
  assert (Ha : slots_all (is_link_of g) a).
  { eapply fold_place_all; [| |exact E].
    - intros e He. apply Hins. apply filter_In in He. tauto.
    - intros l Hl. apply repeat_spec in Hl. discriminate. }
  set (nd_in := map (fun e => (e_src e, e_dst e)) (filter (fun e => negb (is_some (e_dst_dir e))) ins)) in *.
  assert (Hnd : forall l, In l nd_in -> is_link_of g l).
  { intros l Hl. apply in_map_iff in Hl. destruct Hl as (e & <- & He). apply Hins. apply filter_In in He. tauto. }
  pose proof (fill_free_all _ _ _ Ha Hnd) as Hf.
  destruct (fill_free a nd_in) as [inc li]. destruct (fill_free a0 a1) as [out lo]. cbn [fst] in Hf.
  destruct li; [|discriminate]. destruct lo; [|discriminate]. inversion H; subst; cbn. exact Hf.
Qed.

Section Compiled.
  Variables (d : desc) (g : graph) (c : compiled).
  Hypothesis Hb : build d = Ok g.
  Hypothesis Hc : compile d g = Ok c.

  Lemma crt_facts r : In r (c_rts c) ->
    Forall2 paired (cr_in r) (cr_out r) /\ slots_all (fun l => snd l = cr_name r) (cr_in r) /\
    slots_all (is_link_of g) (cr_in r).
  Proof.
    intros Hr. split; [exact (C05_model d g c Hb Hc r Hr)|].
    destruct (compile_inv _ _ _ Hc) as (dirs & nis & rts & rids & _ & Hrts & ->). cbn in Hr.
    destruct (mapM_In _ _ _ _ Hrts Hr) as (p & _ & Hq). cbv beta in Hq. split.
    - destruct (compile_router_in_ends _ _ _ _ _ Hq) as (-> & H). exact H.
    - eapply compile_router_in_links; eauto.
  Qed.

  (* an occupied output slot holds a link of the graph that starts at this router *)
  Lemma crt_out_link r k u v : In r (c_rts c) -> nth_error (cr_out r) k = Some (Some (u, v)) ->
    u = cr_name r /\ nth_error (cr_in r) k = Some (Some (v, u)) /\ is_link_of g (u, v).
  Proof.
    intros Hr Hk. destruct (crt_facts r Hr) as (Hp & Hends & Hlinks).
    assert (Hin : exists a, nth_error (cr_in r) k = Some a /\ paired a (Some (u, v))).
    { clear -Hp Hk. revert k Hk. induction Hp as [|a b l l' Hab _ IH]; intros [|k] Hk; cbn in *; try discriminate.
      - inversion Hk; subst. eauto.
      - apply IH. exact Hk. }
    destruct Hin as ([[a b]|] & Ha & Hpa); cbn in Hpa; [|contradiction]. unfold rev_link in Hpa. cbn in Hpa.
    inversion Hpa; subst a b. pose proof (Hends (v, u) (nth_error_In _ _ Ha)) as He. cbn in He.
    split; [exact He|]. split; [exact Ha|].
    destruct (Hlinks (v, u) (nth_error_In _ _ Ha)) as (e & Hein & Hl & Hs & Hd). cbn in Hs, Hd.
    destruct (build_ginv d g Hb) as (Hsym & _). destruct (Hsym e Hein Hl) as (e' & He' & M1 & M2 & M3 & _).
    exists e'. cbn. repeat split; auto; congruence.
  Qed.

  (* interface names and router names do not meet *)
  Lemma ni_rt_disjoint x r : In x (c_nis c) -> In r (c_rts c) -> cn_name x <> cr_name r.
  Proof.
    intros Hx Hr Heq. destruct (compile_inv _ _ _ Hc) as (dirs & nis & rts & rids & Hn & Hrts & ->). cbn in Hx, Hr.
    destruct (mapM_In _ _ _ _ Hn Hx) as (ni & Hni & Hq). destruct (compile_ni_spec _ _ _ _ Hq) as (N1 & _).
    destruct (mapM_In _ _ _ _ Hrts Hr) as (p & Hp & Hq'). cbv beta in Hq'.
    destruct (compile_router_in_ends _ _ _ _ _ Hq') as (N2 & _).
    apply (in_map fst) in Hp. apply zip_fst_incl in Hp. unfold nodes_of_type in Hni, Hp. apply filter_In in Hni. apply filter_In in Hp.
    destruct Hni as (I1 & T1). destruct Hp as (I2 & T2).
    pose proof (build_nodup d g Hb) as Hnd. unfold names in Hnd.
    assert (ni = fst p) by (eapply NoDup_map_eq; eauto; congruence). subst ni.
    destruct (n_type (fst p)); cbn in T1, T2; discriminate.
  Qed.
End Compiled.

(* ------------------------------------------------------------------ paths *)
Section PathFacts.
  Variable edge : string -> string -> Prop.
  Variable t : string.

  (* the part of a path from the first occurrence of one of its nodes is a path from that node *)
  Lemma path_suffix : forall p s x, path_to_t edge t p s -> In x p ->
    exists q, path_to_t edge t q x /\ (length q <= length p)%nat.
  Proof.
    induction p as [|a p IH]; intros s x Hp Hx; [destruct Hx|].
    destruct (path_head _ _ _ _ Hp) as (rest & E). inversion E; subst a rest.
    destruct Hx as [<-|Hx]; [exists (s :: p); split; [exact Hp|lia]|].
    destruct p as [|b p']; [destruct Hx|].
    destruct (IH b x (path_tail _ _ _ _ _ Hp) Hx) as (q & Hq & Hl). exists q. split; [exact Hq|cbn [length] in *; lia].
  Qed.
End PathFacts.

Lemma In_removelast {A} (l : list A) x : In x (removelast l) -> In x l.
Proof.
  induction l as [|z m IHm]; cbn; [tauto|]. destruct m; [tauto|]. cbn [removelast In] in *. intros [->|H]; [left; reflexivity|right; apply IHm; exact H].
Qed.
Lemma NoDup_removelast {A} (l : list A) : NoDup l -> NoDup (removelast l).
Proof.
  induction l as [|x l IHl]; intros Hn; [constructor|]. destruct l as [|y l']; [constructor|].
  inversion Hn; subst. cbn [removelast]. constructor.
  - intros Hin. apply H1. apply (In_removelast (y :: l')). exact Hin.
  - apply IHl. exact H2.
Qed.
Lemma removelast_length {A} (l : list A) : l <> [] -> length (removelast l) = (length l - 1)%nat.
Proof.
  induction l as [|x l IHl]; [congruence|]. intros _. destruct l as [|y l']; [reflexivity|].
  change (removelast (x :: y :: l')) with (x :: removelast (y :: l')). cbn [length]. rewrite IHl by discriminate. cbn [length]. lia.
Qed.
Lemma In_removelast_or_last (l : list string) x d : l <> [] -> In x l -> In x (removelast l) \/ x = last l d.
Proof.
  induction l as [|a l IHl]; [congruence|]. intros _ Hin. destruct l as [|b l'].
  - right. destruct Hin as [<-|[]]. reflexivity.
  - destruct Hin as [<-|Hin]; [left; cbn; auto|].
    destruct (IHl ltac:(discriminate) Hin) as [H|H]; [left; cbn [removelast]; right; exact H|right; exact H].
Qed.

(* ------------------------------------------------------------------ drivers and readers, any net *)
Lemma driver_rt_nt n nt x k s : In x (n_rts n) -> nth_error (rt_outs nt x) k = Some [s] -> In (URt (r_name x) k) (drivers n nt s).
Proof.
  intros Hx Hk. unfold drivers. apply in_app_iff. right. apply in_flat_map. exists x. split; [exact Hx|].
  apply slot_refs_In. exists k, [s]. split; [reflexivity|]. split; [exact Hk|]. cbn [existsb]. apply orb_true_iff. left. apply str_eqb_eq. reflexivity.
Qed.

Lemma reader_cases_nt n nt s u : In u (readers n nt s) ->
  (exists y, In y (n_nis n) /\ u = UNi (ni_name y) /\ ni_in nt y = Some s) \/
  (exists x i sl, In x (n_rts n) /\ u = URt (r_name x) i /\ nth_error (rt_ins nt x) i = Some sl /\ In (SSig s) sl).
Proof.
  unfold readers. intros H. apply in_app_iff in H. destruct H as [H|H].
  - left. apply in_flat_map in H. destruct H as (y & Hy & Hu). unfold opt_is in Hu.
    destruct (ni_in nt y) as [z|] eqn:Ez; [|destruct Hu].
    destruct (str_eqb s z) eqn:E; [|destruct Hu]. destruct Hu as [<-|[]].
    apply str_eqb_eq in E. subst z. eauto.
  - right. apply in_flat_map in H. destruct H as (x & Hx & Hu). apply slot_refs_In in Hu.
    destruct Hu as (i & sl & -> & Hn & He). exists x, i, sl. split; [exact Hx|]. split; [reflexivity|].
    split; [exact Hn|]. apply existsb_exists in He. destruct He as (z & Hz & Hs). destruct z as [z|]; [|discriminate].
    cbn in Hs. apply str_eqb_eq in Hs. subst. exact Hz.
Qed.

Lemma rev_link_invol l : rev_link (rev_link l) = l.
Proof. destruct l; reflexivity. Qed.

(* ------------------------------------------------------------------ slots and attachments on net nt *)
Section Slots.
  Variables (d : desc) (g : graph) (c : compiled) (ri : rinfo) (n : netlist).
  Variable nt : net.
  Hypothesis Hnt : net_ok d nt.
  Hypothesis Hb : build d = Ok g.
  Hypothesis Hc : compile d g = Ok c.
  Hypothesis He : emit c ri = Ok n.
  Let Hcd : c_desc c = d := proj1 (compile_desc d g c Hc).
  Let Hcg : c_graph c = g := proj2 (compile_desc d g c Hc).
  Let Hnd : NoDup (map cr_name (c_rts c)) := built_router_names_nodup d g c Hb Hc.

  Lemma rt_of_instance x : In x (n_rts n) -> exists r, In r (c_rts c) /\ emit_rt (c_desc c) ri r = Ok x.
  Proof.
    intros Hx. destruct (emit_inv _ _ _ He) as (_ & axi & rts & _ & Hrts & Hn). rewrite Hn in Hx. cbn [n_rts] in Hx.
    destruct (mapM_In _ _ _ _ Hrts Hx) as (r & Hr & Hq). eauto.
  Qed.

  (* what the output and input slots of an emitted router carry on net nt *)
  Lemma out_slot r x k l : In r (c_rts c) -> emit_rt (c_desc c) ri r = Ok x ->
    nth_error (cr_out r) k = Some (Some l) -> nth_error (rt_outs nt x) k = Some [flow nt l].
  Proof.
    intros Hr Hx Hk. destruct (emitted_rt c ri n He Hnd r Hr) as (x' & Hx' & _ & _ & O1 & _ & O2 & _ & O3 & _).
    rewrite Hx in Hx'. inversion Hx'; subst x'. destruct Hnt as [-> | [-> | (-> & Hnw)]]; cbn [rt_outs].
    - rewrite O1. unfold out_sig. rewrite nth_error_map, Hk. reflexivity.
    - rewrite O2. unfold out_sig. rewrite nth_error_map.
      destruct l as [u v]. destruct (crt_out_link d g c Hb Hc r k u v Hr Hk) as (_ & Hin & _). rewrite Hin. reflexivity.
    - rewrite O3, Hcd, Hnw. unfold out_sig. rewrite nth_error_map, Hk. reflexivity.
  Qed.

  Lemma in_slot r x i sl s : In r (c_rts c) -> emit_rt (c_desc c) ri r = Ok x ->
    nth_error (rt_ins nt x) i = Some sl -> In (SSig s) sl ->
    exists l, nth_error (cr_in r) i = Some (Some l) /\ s = flow nt l.
  Proof.
    intros Hr Hx Hi Hs. destruct (emitted_rt c ri n He Hnd r Hr) as (x' & Hx' & _ & _ & _ & I1 & _ & I2 & _ & I3).
    rewrite Hx in Hx'. inversion Hx'; subst x'. destruct Hnt as [-> | [-> | (-> & Hnw)]]; cbn [rt_ins] in Hi.
    - rewrite I1 in Hi. unfold in_src in Hi. rewrite nth_error_map in Hi.
      destruct (nth_error (cr_in r) i) as [o|]; [|discriminate]. cbn in Hi. inversion Hi; subst sl.
      destruct o as [l|]; [|destruct Hs as [Hs|[]]; discriminate]. destruct Hs as [Hs|[]]. inversion Hs. exists l. auto.
    - rewrite I2 in Hi. unfold in_src in Hi. rewrite nth_error_map in Hi.
      destruct (nth_error (cr_out r) i) as [o|] eqn:Eo; [|discriminate]. cbn in Hi. inversion Hi; subst sl.
      destruct o as [[u v]|]; [|destruct Hs as [Hs|[]]; discriminate]. destruct Hs as [Hs|[]]. inversion Hs.
      destruct (crt_out_link d g c Hb Hc r i u v Hr Eo) as (_ & Hin & _). exists (v, u). split; [exact Hin|reflexivity].
    - rewrite I3, Hcd, Hnw in Hi. unfold in_src in Hi. rewrite nth_error_map in Hi.
      destruct (nth_error (cr_in r) i) as [o|]; [|discriminate]. cbn in Hi. inversion Hi; subst sl.
      destruct o as [l|]; [|destruct Hs as [Hs|[]]; discriminate]. destruct Hs as [Hs|[]]. inversion Hs. exists l. auto.
  Qed.

  Lemma link_declared u v : is_link_of g (u, v) -> In (net_type nt, flow nt (u, v)) (n_links n).
  Proof.
    intros Hl. pose proof (build_ginv d g Hb) as (Hsym & Hends).
    destruct Hnt as [-> | [-> | (-> & Hnw)]]; cbn [net_type].
    - apply (emitted_links c ri n He u v); rewrite Hcg; assumption.
    - (* the response signal u -> v belongs to the link v -> u *)
      destruct Hl as (e & Hin & Hle & Hs & Hd). cbn in Hs, Hd. destruct (Hsym e Hin Hle) as (e' & He' & M1 & M2 & M3 & _).
      assert (Hl' : exists e0, In e0 (g_edges (c_graph c)) /\ is_link e0 = true /\ e_src e0 = v /\ e_dst e0 = u).
      { rewrite Hcg. exists e'. repeat split; auto; congruence. }
      apply (emitted_links c ri n He v u Hl'). rewrite Hcg. exact Hends.
    - assert (Hl' : exists e0, In e0 (g_edges (c_graph c)) /\ is_link e0 = true /\ e_src e0 = u /\ e_dst e0 = v) by (rewrite Hcg; exact Hl).
      destruct (emitted_links c ri n He u v Hl' ltac:(rewrite Hcg; exact Hends)) as (_ & _ & Hw). apply Hw. rewrite Hcd. exact Hnw.
  Qed.

  (* the link an interface sends net nt on: its first link to a router (requests) resp. the reverse of its
     first link from a router (responses) *)
  Definition attach (x : cni) : link :=
    match nt with Rsp => rev_link (cn_sbr_link x) | _ => cn_mgr_link x end.

  Lemma compile_ni_links x : In x (c_nis c) ->
    fst (cn_mgr_link x) = cn_name x /\ is_link_of g (cn_mgr_link x) /\
    snd (cn_sbr_link x) = cn_name x /\ is_link_of g (cn_sbr_link x).
  Proof.
    intros Hx. destruct (compile_inv _ _ _ Hc) as (dirs & nis & rts & rids & Hn & _ & Hceq). rewrite Hceq in Hx. cbn in Hx.
    destruct (mapM_In _ _ _ _ Hn Hx) as (ni & _ & Hq). unfold compile_ni in Hq.
    destruct (find_ep d (n_desc ni)); [|discriminate]. inv_bind Hq. inversion Hq; subst x; clear Hq. cbn.
    unfold link_edges_from in E3. destruct (filter is_link (edges_from g (n_name ni))) as [|e1 [|? ?]] eqn:F; try discriminate.
    inversion E3; subst a3. assert (He1 : In e1 (filter is_link (edges_from g (n_name ni)))) by (rewrite F; left; reflexivity).
    apply filter_In in He1. destruct He1 as (He1 & Hl1).
    unfold link_edges_to in E4. destruct (filter is_link (edges_to g (n_name ni))) as [|e2 [|? ?]] eqn:F2; try discriminate.
    inversion E4; subst a4. assert (He2 : In e2 (filter is_link (edges_to g (n_name ni)))) by (rewrite F2; left; reflexivity).
    apply filter_In in He2. destruct He2 as (He2 & Hl2). cbn.
    split; [eapply edges_from_src; eauto|]. split.
    - unfold edges_from in He1. apply filter_In in He1. destruct He1 as (He1 & _). apply edges_view_sub in He1. exists e1. cbn. auto.
    - split; [eapply edges_to_dst; eauto|].
      unfold edges_to in He2. apply filter_In in He2. destruct He2 as (He2 & _). apply edges_view_sub in He2. exists e2. cbn. auto.
  Qed.

  (* an accepted interface has exactly one link in each direction: every link edge that leaves (enters) it is the
     recorded one -- the former side condition `single_attach`, now a consequence of acceptance (DESIGN 8.16) *)
  Lemma compile_ni_single x e : In x (c_nis c) -> In e (g_edges g) -> is_link e = true ->
    (e_src e = cn_name x -> (e_src e, e_dst e) = cn_mgr_link x) /\ (e_dst e = cn_name x -> (e_src e, e_dst e) = cn_sbr_link x).
  Proof.
    intros Hx Hein Hl. destruct (compile_inv _ _ _ Hc) as (dirs & nis & rts & rids & Hn & _ & Hceq). rewrite Hceq in Hx. cbn in Hx.
    destruct (mapM_In _ _ _ _ Hn Hx) as (ni & _ & Hq). unfold compile_ni in Hq.
    destruct (find_ep d (n_desc ni)); [|discriminate]. inv_bind Hq. inversion Hq; subst x; clear Hq. cbn.
    pose proof (proj2 (build_ginv d g Hb)) as Hends.
    assert (Hev : In e (edges_view g)) by (apply (edges_view_In g e Hends); exact Hein).
    split; intros Hq.
    - unfold link_edges_from in E3. destruct (filter is_link (edges_from g (n_name ni))) as [|e1 [|? ?]] eqn:F; try discriminate.
      inversion E3; subst a3.
      assert (Hin : In e (filter is_link (edges_from g (n_name ni)))).
      { apply filter_In. split; [|exact Hl]. unfold edges_from. apply filter_In. split; [exact Hev|apply str_eqb_eq; exact Hq]. }
      rewrite F in Hin. destruct Hin as [<-|[]]. reflexivity.
    - unfold link_edges_to in E4. destruct (filter is_link (edges_to g (n_name ni))) as [|e2 [|? ?]] eqn:F2; try discriminate.
      inversion E4; subst a4.
      assert (Hin : In e (filter is_link (edges_to g (n_name ni)))).
      { apply filter_In. split; [|exact Hl]. unfold edges_to. apply filter_In. split; [exact Hev|apply str_eqb_eq; exact Hq]. }
      rewrite F2 in Hin. destruct Hin as [<-|[]]. reflexivity.
  Qed.

  Lemma attach_link x : In x (c_nis c) -> fst (attach x) = cn_name x /\ is_link_of g (attach x) /\
    ni_out nt (emit_ni d (ri_offset ri) x) = Some (flow nt (attach x)).
  Proof.
    intros Hx. destruct (compile_ni_links x Hx) as (M1 & M2 & S1 & S2). unfold attach.
    destruct Hnt as [-> | [-> | (-> & Hnw)]]; [| |split; [exact M1|]; split; [exact M2|]; cbn [ni_out emit_ni ni_wide_o]; rewrite Hnw; reflexivity].
    - split; [exact M1|]. split; [exact M2|]. reflexivity.
    - split; [destruct (cn_sbr_link x); exact S1|]. split.
      + destruct S2 as (e & Hin & Hl & Hs & Hd). destruct (build_ginv d g Hb) as (Hsym & _).
        destruct (Hsym e Hin Hl) as (e' & He' & N1 & N2 & N3 & _). exists e'. destruct (cn_sbr_link x). cbn in *.
        repeat split; auto; congruence.
      + cbn [ni_out emit_ni ni_rsp_o]. rewrite <- flow_rsp. reflexivity.
  Qed.

End Slots.

(* ------------------------------------------------------------------ the walk of a flit under IdTable routing *)
Lemma consecutive_cons2' {T} (a b : T) l : consecutive (a :: b :: l) = (a, b) :: consecutive (b :: l).
Proof. reflexivity. Qed.

Section HwId.
  Variables (sp : oracle) (d : desc) (g : graph) (c : compiled) (ri : rinfo) (n : netlist) (t : cni) (id : Z).
  Variable nt : net.
  Hypothesis Hnt : net_ok d nt.
  Hypothesis Hb : build d = Ok g.
  Hypothesis Hc : compile d g = Ok c.
  Hypothesis Hri : gen_routing_info sp c = Ok ri.
  Hypothesis He : emit c ri = Ok n.
  Hypothesis Halgo : d_algo d = ID.
  Hypothesis Ht : In t (c_nis c).
  Hypothesis Hid : id_num (cn_id t) = Ok id.
  Let tname := cn_name t.
  Let gedge (u v : string) : Prop := exists e, In e (g_edges g) /\ e_src e = u /\ e_dst e = v.
  Let sp' (u : string) := sp g u tname.
  (* the oracle returns shortest paths of the graph *)
  Hypothesis sp_path : forall s p, sp' s = Some p -> path_to_t gedge tname p s.
  Hypothesis sp_min : forall s p q, sp' s = Some p -> path_to_t gedge tname q s -> (length p <= length q)%nat.
  Variable B : nat.
  Hypothesis sp_bound : forall s p, sp' s = Some p -> (length p <= B)%nat.
  Hypothesis sp_complete : forall s q, path_to_t gedge tname q s -> (length q <= B)%nat -> sp' s <> None.
  (* shortest paths from a router run through routers only *)
  Hypothesis Htransit : forall u p, is_router c u -> sp' u = Some p -> forall x, In x (removelast p) -> is_router c x.
  (* every declared link signal has one driver, one reader and the name of its ends (C05, second half) *)
  Hypothesis Hwire : forall l, In l (n_links n) -> fst l = net_type nt -> signal_ok n l.
  (* the port index fits the 32-bit field of the table rule *)
  Hypothesis Hdeg : forall r, In r (c_rts c) -> Z.of_nat (length (cr_out r)) <= 2 ^ 32.

  Let Hcd : c_desc c = d := proj1 (compile_desc d g c Hc).
  Let Hcg : c_graph c = g := proj2 (compile_desc d g c Hc).
  Let Hnd : NoDup (map cr_name (c_rts c)) := built_router_names_nodup d g c Hb Hc.
  Let rt_of_instance := rt_of_instance c ri n He.
  Let out_slot := out_slot d g c ri n nt Hnt Hb Hc He.
  Let in_slot := in_slot d g c ri n nt Hnt Hb Hc He.
  Let link_declared := link_declared d g c ri n nt Hnt Hb Hc He.
  Let attach_link := attach_link d g c ri nt Hnt Hb Hc.

  Theorem hw_walk : forall k r p inp prev,
    In r (c_rts c) -> sp' (cr_name r) = Some p -> length p = S (S k) ->
    nth_error (cr_in r) inp = Some (Some (prev, cr_name r)) -> ~ In prev p ->
    forall fuel rts sigs, (S k <= fuel)%nat ->
      let tr := walk fuel n nt (URt (cr_name r) inp) (HId id) rts sigs in
      t_out tr = Delivered tname (HId id) /\ length (t_rts tr) = (length rts + S k)%nat /\
      t_sigs tr = rev sigs ++ map (flow nt) (consecutive (PathProofs.follow sp' (S k) (cr_name r))) /\
      Forall (is_link_of g) (consecutive (PathProofs.follow sp' (S k) (cr_name r))).
  Proof.
    induction k as [|k IH]; intros r p inp prev Hr Hsp Hlen Hinp Hprev fuel rts sigs Hfuel;
      (destruct fuel as [|fuel]; [lia|]); cbv zeta; cbn [walk].
    all: destruct (emitted_rt c ri n He Hnd r Hr) as (x & Hx & Hfind & Hname & _).
    all: rewrite Hfind.
    all: assert (Ha : d_algo (c_desc c) = ID) by (rewrite Hcd; exact Halgo).
    all: destruct (hw_select_id sp c ri n t id r x Ha Hri Hnd Ht Hid Hr Hx (Hdeg r Hr)) as (h & nxt & rest & k1 & Hsp1 & Hk1 & Hsel).
    all: rewrite Hcg in Hsp1; fold tname in Hsp1; change (sp g (cr_name r) tname) with (sp' (cr_name r)) in Hsp1.
    all: rewrite Hsp in Hsp1; inversion Hsp1; subst p; clear Hsp1.
    all: rewrite Hsel.
    all: pose proof (sp_path _ _ Hsp) as Hpath.
    all: destruct (path_head _ _ _ _ Hpath) as (rest0 & Eh); inversion Eh; subst h rest0; clear Eh.
    all: destruct (crt_out_link d g c Hb Hc r k1 (cr_name r) nxt Hr Hk1) as (_ & Hin1 & Hlink).
    (* no loop-back: the chosen output is not the port the flit came in on *)
    all: assert (Hne : inp <> k1) by
      (intros ->; rewrite Hin1 in Hinp; inversion Hinp; subst prev; apply Hprev; cbn; auto).
    all: destruct (Z.of_nat k1 <? 0) eqn:Eneg; [lia|].
    all: destruct (Z.of_nat inp =? Z.of_nat k1) eqn:Eeq; [lia|].
    all: cbn [is_xy andb].
    all: rewrite Nat2Z.id; rewrite (out_slot r x k1 _ Hr Hx Hk1).
    all: cbv beta iota.
    all: set (s := flow nt (cr_name r, nxt)).
    (* the signal is declared, so it has one driver and one reader *)
    all: pose proof (link_declared _ _ Hlink) as Hdecl; fold s in Hdecl.
    all: destruct (Hwire _ Hdecl eq_refl) as (nt' & dd & u & Hnt' & Hdrv & Hrd & Hnm); cbn [fst snd] in Hnt', Hdrv, Hrd, Hnm.
    all: assert (nt' = nt) by (rewrite net_of_type_nt in Hnt'; congruence); subst nt'.
    all: assert (Hxin : In x (n_rts n)) by (apply find_some in Hfind; tauto).
    all: assert (Hdd : dd = URt (cr_name r) k1) by
      (pose proof (driver_rt_nt n nt x k1 s Hxin (out_slot r x k1 _ Hr Hx Hk1)) as Hd1; rewrite Hdrv, Hname in Hd1;
       destruct Hd1 as [Hd1|[]]; exact Hd1).
    all: subst dd; cbn [uref_name] in Hnm.
    all: assert (Hu : nxt = uref_name u) by (apply (flow_dst nt (cr_name r)); exact Hnm).
    all: unfold Hw.follow; rewrite Hrd.
    all: assert (Hcase := reader_cases_nt n nt s u); rewrite Hrd in Hcase; specialize (Hcase (or_introl eq_refl)).
    all: assert (Hrt_r : is_router c (cr_name r)) by (exists r; auto).
    - (* the path is [r; nxt]: nxt is the destination *)
      destruct rest as [|? ?]; [|cbn in Hlen; lia].
      assert (Hnt'' : nxt = tname) by (destruct Hpath as (_ & _ & Hl & _); cbn in Hl; exact Hl).
      destruct Hcase as [(y & Hy & -> & _)|(x2 & i & sl & Hx2 & -> & _ & _)].
      + cbn [uref_name] in Hu.
        assert (Hfo : PathProofs.follow sp' 1 (cr_name r) = [cr_name r; nxt]) by (cbn [PathProofs.follow]; rewrite Hsp; reflexivity).
        rewrite Hfo. cbn [consecutive map]. fold s.
        destruct fuel; cbn [walk t_out t_rts t_sigs]; rewrite <- Hu, Hnt'', rev_length; cbn [length rev];
          (split; [reflexivity|split; [lia|split; [reflexivity|constructor; [rewrite Hnt'' in Hlink; exact Hlink|constructor]]]]).
      + exfalso. cbn [uref_name] in Hu. destruct (rt_of_instance x2 Hx2) as (r2 & Hr2 & Hq2).
        destruct (emitted_rt c ri n He Hnd r2 Hr2) as (x2' & Hx2' & _ & Hn2 & _). rewrite Hq2 in Hx2'. inversion Hx2'; subst x2'.
        apply (ni_rt_disjoint d g c Hb Hc t r2 Ht Hr2). fold tname. congruence.
    - (* a longer path: nxt is a router *)
      destruct rest as [|n2 rest]; [cbn in Hlen; lia|].
      assert (Hnxt_rt : is_router c nxt) by (apply (Htransit _ _ Hrt_r Hsp); cbn; auto).
      destruct Hcase as [(y & Hy & -> & _)|(x2 & i & sl & Hx2 & -> & Hsl & Hs)].
      + exfalso. cbn [uref_name] in Hu. rewrite (emitted_nis c ri n He) in Hy. apply in_map_iff in Hy.
        destruct Hy as (x' & <- & Hx'). destruct Hnxt_rt as (r' & Hr' & Hn').
        apply (ni_rt_disjoint d g c Hb Hc x' r' Hx' Hr'). rewrite Hn', Hu. reflexivity.
      + cbn [uref_name] in Hu. destruct (rt_of_instance x2 Hx2) as (r2 & Hr2 & Hq2).
        destruct (emitted_rt c ri n He Hnd r2 Hr2) as (x2' & Hx2' & _ & Hn2 & _). rewrite Hq2 in Hx2'. inversion Hx2'; subst x2'.
        (* the reader's slot holds exactly this link *)
        destruct (in_slot r2 x2 i sl s Hr2 Hq2 Hsl Hs) as ([a b] & Eo & Hs').
        destruct (crt_facts d g c Hb Hc r2 Hr2) as (_ & Hends2 & _).
        pose proof (Hends2 (a, b) (nth_error_In _ _ Eo)) as Hb2. cbn in Hb2.
        assert (Hbn : b = nxt) by congruence. rewrite Hbn in Hs', Eo.
        assert (a = cr_name r) by (symmetry; apply (flow_src nt (cr_name r) nxt a); exact Hs'). subst a.
        (* the oracle's path from nxt is one shorter and does not contain r *)
        destruct (next_shorter gedge tname sp' sp_path sp_min B sp_bound sp_complete (cr_name r) nxt (n2 :: rest) _ Hsp eq_refl)
          as (p' & Hp' & Hl').
        assert (Hnotin : ~ In (cr_name r) p').
        { intros Hin'. destruct (path_suffix gedge tname p' nxt (cr_name r) (sp_path _ _ Hp') Hin') as (q & Hq & Hlq).
          pose proof (sp_min _ _ _ Hsp Hq). cbn [length] in *. lia. }
        rewrite Hn2. assert (Hs_eq : s = flow nt (cr_name r, cr_name r2)) by (unfold s; do 2 f_equal; congruence).
        replace nxt with (cr_name r2) in * by congruence.
        destruct (IH r2 p' i (cr_name r) Hr2 Hp' ltac:(cbn [length] in *; lia) Eo Hnotin fuel (cr_name r :: rts) (s :: sigs) ltac:(lia))
          as (I1 & I2 & I3 & I4).
        split; [exact I1|]. split; [rewrite I2; cbn [length]; lia|].
        change (PathProofs.follow sp' (S (S k)) (cr_name r)) with
          (match sp' (cr_name r) with Some (_ :: nx :: _) => cr_name r :: PathProofs.follow sp' (S k) nx | _ => [cr_name r] end).
        rewrite Hsp. destruct (follow_head sp' (S k) (cr_name r2)) as (tl & Etl). rewrite Etl in *.
        split.
        * rewrite I3. cbn [rev]. rewrite <- app_assoc. f_equal.
          cbn [consecutive map app]. rewrite <- Hs_eq. reflexivity.
        * rewrite consecutive_cons2'. constructor; [exact Hlink|exact I4].
  Qed.

  (* ---- injection at an interface ---- *)
  Lemma follow_S (f : nat) u : PathProofs.follow sp' (S f) u =
    match sp' u with Some (_ :: nx :: _) => u :: PathProofs.follow sp' f nx | _ => [u] end.
  Proof. reflexivity. Qed.

  Lemma follow_routers : forall k u p, is_router c u -> sp' u = Some p -> length p = S (S k) ->
    incl (removelast (PathProofs.follow sp' (S k) u)) (map cr_name (c_rts c)).
  Proof.
    induction k as [|k IH]; intros u p Hu Hs Hl; rewrite follow_S, Hs;
      destruct (path_head _ _ _ _ (sp_path _ _ Hs)) as (rest & ->).
    - destruct rest as [|a [|? ?]]; try (cbn in Hl; lia).
      cbn. intros x [<-|[]]. destruct Hu as (r & Hr & <-). apply in_map. exact Hr.
    - destruct rest as [|nxt [|n2 rest]]; try (cbn in Hl; lia).
      destruct (next_shorter gedge tname sp' sp_path sp_min B sp_bound sp_complete u nxt (n2 :: rest) _ Hs eq_refl) as (p' & Hp' & Hl').
      assert (Hnr : is_router c nxt) by (apply (Htransit _ _ Hu Hs); cbn; auto).
      specialize (IH nxt p' Hnr Hp' ltac:(cbn [length] in *; lia)).
      assert (E : removelast (u :: PathProofs.follow sp' (S k) nxt) = u :: removelast (PathProofs.follow sp' (S k) nxt)).
      { rewrite follow_S, Hp'. destruct p' as [|? [|? ?]]; try (cbn in Hl'; lia). reflexivity. }
      rewrite E. intros x [<-|Hx]; [destruct Hu as (r & Hr & <-); apply in_map; exact Hr|apply IH; exact Hx].
  Qed.

  Lemma path_len_bound u p : is_router c u -> sp' u = Some p -> (length p <= S (length (c_rts c)))%nat.
  Proof.
    intros Hu Hs. pose proof (sp_path _ _ Hs) as Hp. destruct (path_head _ _ _ _ Hp) as (rest & E).
    destruct rest as [|a rest]; [subst p; cbn; lia|].
    assert (Hl : length p = S (S (length rest))) by (subst p; reflexivity).
    pose proof (follow_routers (length rest) u p Hu Hs Hl) as Hincl.
    pose proof (follow_nodup gedge tname sp' sp_path sp_min B sp_bound sp_complete (S (length rest)) u p Hs Hl) as Hn.
    destruct (follow_delivers gedge tname sp' sp_path sp_min B sp_bound sp_complete (S (length rest)) u p Hs Hl) as (Hlen & _).
    pose proof (NoDup_removelast _ Hn) as Hn'.
    pose proof (NoDup_incl_length Hn' Hincl) as Hle. rewrite map_length in Hle.
    rewrite removelast_length in Hle by (intros E0; rewrite E0 in Hlen; discriminate). lia.
  Qed.

  (* C02 on the hardware model: a flit injected at interface s0 on net nt with the identity of t is delivered to t *)
  Theorem hw_send_full s0 r0 p :
    In s0 (c_nis c) -> cn_name s0 <> tname -> snd (attach nt s0) = r0 -> is_router c r0 -> sp' r0 = Some p ->
    let tr := send n nt (emit_ni d (ri_offset ri) s0) (HId id) in
    t_out tr = Delivered tname (HId id) /\ S (length (t_rts tr)) = length p /\
    (* the signals crossed are those of the links along the oracle's next hops, the injection link first *)
    t_sigs tr = map (flow nt) (consecutive (cn_name s0 :: PathProofs.follow sp' (length p - 1) r0)) /\
    ~ In (cn_name s0) (PathProofs.follow sp' (length p - 1) r0) /\
    Forall (is_link_of g) (consecutive (cn_name s0 :: PathProofs.follow sp' (length p - 1) r0)).
  Proof.
    intros Hs0 Hne Hr0 Hrt Hsp. cbv zeta.
    destruct (attach_link s0 Hs0) as (Hfst & Hlink & Hout).
    assert (Hml : attach nt s0 = (cn_name s0, r0)) by (destruct (attach nt s0); cbn in *; congruence).
    rewrite Hml in Hlink, Hout.
    unfold send. rewrite Hout.
    set (s := flow nt (cn_name s0, r0)).
    pose proof (link_declared _ _ Hlink) as Hdecl. fold s in Hdecl.
    destruct (Hwire _ Hdecl eq_refl) as (nt' & dd & u & Hnt' & Hdrv & Hrd & Hnm); cbn [fst snd] in Hnt', Hdrv, Hrd, Hnm.
    assert (nt' = nt) by (rewrite net_of_type_nt in Hnt'; congruence); subst nt'.
    (* the interface itself drives the signal *)
    assert (Hdd : dd = UNi (cn_name s0)).
    { assert (Hin : In (UNi (cn_name s0)) (drivers n nt s)).
      { unfold drivers. apply in_app_iff. left. apply in_flat_map. exists (emit_ni d (ri_offset ri) s0). split.
        - rewrite (emitted_nis c ri n He), Hcd. apply in_map. exact Hs0.
        - rewrite Hout. fold s. unfold opt_is. rewrite (proj2 (str_eqb_eq s s) eq_refl). left. reflexivity. }
      rewrite Hdrv in Hin. destruct Hin as [Hin|[]]. exact Hin. }
    subst dd. cbn [uref_name] in Hnm.
    assert (Hu : r0 = uref_name u) by (apply (flow_dst nt (cn_name s0)); exact Hnm).
    unfold Hw.follow. rewrite Hrd.
    assert (Hcase := reader_cases_nt n nt s u); rewrite Hrd in Hcase; specialize (Hcase (or_introl eq_refl)).
    destruct Hrt as (r & Hr & Hrn).
    destruct Hcase as [(y & Hy & -> & _)|(x2 & i & sl & Hx2 & -> & Hsl & Hs)].
    - exfalso. cbn [uref_name] in Hu. rewrite (emitted_nis c ri n He) in Hy. apply in_map_iff in Hy.
      destruct Hy as (x' & <- & Hx'). apply (ni_rt_disjoint d g c Hb Hc x' r Hx' Hr). cbn [emit_ni ni_name] in Hu. congruence.
    - cbn [uref_name] in Hu. destruct (rt_of_instance x2 Hx2) as (r2 & Hr2 & Hq2).
      destruct (emitted_rt c ri n He Hnd r2 Hr2) as (x2' & Hx2' & _ & Hn2 & _). rewrite Hq2 in Hx2'. inversion Hx2'; subst x2'.
      assert (r2 = r).
      { assert (cr_name r2 = cr_name r) by congruence.
        eapply NoDup_map_eq; [exact Hnd|exact Hr2|exact Hr|assumption]. }
      subst r2.
      destruct (in_slot r x2 i sl s Hr Hq2 Hsl Hs) as ([a b] & Eo & Hs').
      destruct (crt_facts d g c Hb Hc r Hr) as (_ & Hends2 & _).
      pose proof (Hends2 (a, b) (nth_error_In _ _ Eo)) as Hb2. cbn in Hb2.
      assert (Hbn : b = r0) by congruence. rewrite Hbn in Hs', Eo.
      assert (a = cn_name s0) by (symmetry; apply (flow_src nt (cn_name s0) r0 a); exact Hs'). subst a.
      pose proof (sp_path _ _ Hsp) as Hpath. destruct (path_head _ _ _ _ Hpath) as (rest & Ep).
      assert (Hrr : is_router c r0) by (exists r; auto).
      (* the source interface is not on the path: its nodes are routers, and t *)
      assert (Hnotin : ~ In (cn_name s0) p).
      { intros Hin. assert (Hcases : In (cn_name s0) (removelast p) \/ cn_name s0 = tname).
        { destruct Hpath as (_ & _ & Hl & Hne0). rewrite <- Hl. apply In_removelast_or_last; assumption. }
        destruct Hcases as [Hc1|Hc2]; [|contradiction].
        destruct (Htransit _ _ Hrr Hsp _ Hc1) as (r' & Hr' & Hn'). apply (ni_rt_disjoint d g c Hb Hc s0 r' Hs0 Hr'). congruence. }
      rewrite Hn2.
      destruct rest as [|nxt rest].
      + (* r0 = t is impossible: t is an interface *)
        exfalso. subst p. destruct Hpath as (_ & _ & Hl & _). cbn in Hl.
        apply (ni_rt_disjoint d g c Hb Hc t r Ht Hr). fold tname. congruence.
      + assert (Hlen : length p = S (S (length rest))) by (subst p; reflexivity).
        rewrite <- Hrn in Hsp, Eo.
        assert (Hfuel : (S (length rest) <= S (length (n_rts n)))%nat).
        { pose proof (path_len_bound (cr_name r) p ltac:(exists r; auto) Hsp) as Hb1.
          destruct (emit_inv _ _ _ He) as (_ & axi & rts & _ & Hrts & Hn). rewrite Hn. cbn [n_rts].
          rewrite (mapM_length _ _ _ Hrts). lia. }
        destruct (hw_walk (length rest) r p i (cn_name s0) Hr Hsp Hlen Eo Hnotin (S (length (n_rts n))) [] [s] Hfuel) as (W1 & W2 & W3 & W4).
        split; [exact W1|]. split; [rewrite W2, Hlen; reflexivity|].
        rewrite Hlen. replace (S (S (length rest)) - 1)%nat with (S (length rest)) by lia.
        split; [|split].
        * rewrite W3. destruct (follow_head sp' (S (length rest)) (cr_name r)) as (tl & Etl).
          rewrite Hrn in Etl |- *. rewrite Etl. cbn [rev app consecutive map]. reflexivity.
        * (* the visited nodes are routers, and t *)
          rewrite <- Hrn. intros Hin. destruct (follow_delivers gedge tname sp' sp_path sp_min B sp_bound sp_complete (S (length rest)) (cr_name r) p Hsp Hlen)
            as (_ & Hlast & _ & _).
          assert (Hne0 : PathProofs.follow sp' (S (length rest)) (cr_name r) <> []).
          { destruct (follow_head sp' (S (length rest)) (cr_name r)) as (tl & Etl). rewrite Etl. discriminate. }
          destruct (In_removelast_or_last _ (cn_name s0) (cr_name r) Hne0 Hin) as [Hc1|Hc2].
          -- apply (follow_routers (length rest) (cr_name r) p ltac:(exists r; auto) Hsp Hlen) in Hc1.
             apply in_map_iff in Hc1. destruct Hc1 as (r' & Hn' & Hr'). apply (ni_rt_disjoint d g c Hb Hc s0 r' Hs0 Hr'). congruence.
          -- rewrite Hlast in Hc2. contradiction.
        * destruct (follow_head sp' (S (length rest)) (cr_name r)) as (tl & Etl).
          rewrite Hrn in Etl, W4. rewrite Etl in *. rewrite consecutive_cons2'. constructor; [exact Hlink|exact W4].
  Qed.

  Corollary hw_send s0 r0 p :
    In s0 (c_nis c) -> cn_name s0 <> tname -> snd (attach nt s0) = r0 -> is_router c r0 -> sp' r0 = Some p ->
    let tr := send n nt (emit_ni d (ri_offset ri) s0) (HId id) in
    t_out tr = Delivered tname (HId id) /\ S (length (t_rts tr)) = length p.
  Proof.
    intros H1 H2 H3 H4 H5. destruct (hw_send_full s0 r0 p H1 H2 H3 H4 H5) as (A & B0 & _). split; assumption.
  Qed.
End HwId.

(* ------------------------------------------------------------------ closed form with the verified reference oracle *)
From FV Require Import RefOracle.

Theorem hw_send_ref (d : desc) (g : graph) (c : compiled) (ri : rinfo) (n : netlist) (t : cni) (id : Z) (nt : net) :
  net_ok d nt ->
  build d = Ok g -> compile d g = Ok c -> gen_routing_info sp_reference c = Ok ri -> emit c ri = Ok n ->
  d_algo d = ID -> In t (c_nis c) -> id_num (cn_id t) = Ok id ->
  (forall u p, is_router c u -> sp_reference g u (cn_name t) = Some p -> forall x, In x (removelast p) -> is_router c x) ->
  chk_C05 n = [] ->
  (forall r, In r (c_rts c) -> Z.of_nat (length (cr_out r)) <= 2 ^ 32) ->
  forall s0 r0 p, In s0 (c_nis c) -> cn_name s0 <> cn_name t -> snd (attach nt s0) = r0 -> is_router c r0 ->
    sp_reference g r0 (cn_name t) = Some p ->
    let tr := send n nt (emit_ni d (ri_offset ri) s0) (HId id) in
    t_out tr = Delivered (cn_name t) (HId id) /\ S (length (t_rts tr)) = length p.
Proof.
  intros Hnt Hb Hc Hri He Ha Ht Hid Htr Hchk Hdeg s0 r0 p.
  apply (hw_send sp_reference d g c ri n t id nt Hnt Hb Hc Hri He Ha Ht Hid
           (fun s p H => sp_ref_path g (cn_name t) s p H)
           (fun s p q H Hq => sp_ref_min g (cn_name t) s p q H Hq)
           (bound g)
           (fun s p H => sp_ref_bound g (cn_name t) s p H)
           (fun s q Hq Hl => sp_ref_complete g (cn_name t) s q Hq Hl) Htr
           (fun l Hl _ => proj2 (chk_C05_sound n Hchk) l Hl) Hdeg).
Qed.

(* ------------------------------------------------------------------ shortest paths are simple *)
Section Shortest.
  Variable edge : string -> string -> Prop.
  Variable t : string.
  Definition shortest (p : list string) (s : string) : Prop :=
    path_to_t edge t p s /\ forall q, path_to_t edge t q s -> (length p <= length q)%nat.

  Lemma shortest_tail a b rest : shortest (a :: b :: rest) a -> shortest (b :: rest) b.
  Proof.
    intros (Hp & Hm). split; [eapply path_tail; eauto|].
    intros q Hq. destruct (path_head _ _ _ _ Hq) as (qr & ->).
    assert (Hq' : path_to_t edge t (a :: b :: qr) a).
    { destruct Hp as (Hw & _). cbn [is_walk] in Hw. destruct Hw as (Hab & _).
      destruct Hq as (Hwq & _ & Hlq & _). unfold path_to_t. split; [|split; [|split]].
      - cbn [is_walk]. split; [exact Hab|exact Hwq].
      - reflexivity.
      - rewrite <- Hlq. cbn [last]. apply last_indep.
      - discriminate. }
    specialize (Hm _ Hq'). cbn [length] in *. lia.
  Qed.

  Lemma shortest_nodup : forall p s, shortest p s -> NoDup p.
  Proof.
    induction p as [|a p IH]; intros s Hs; [constructor|].
    destruct Hs as (Hp & Hm). destruct (path_head _ _ _ _ Hp) as (rest & E). inversion E; subst a rest.
    destruct p as [|b p']; [constructor; [intros []|constructor]|].
    pose proof (shortest_tail s b p' (conj Hp Hm)) as Hst. constructor; [|apply (IH b Hst)].
    intros Hin. destruct Hst as (Hpt & _).
    destruct (path_suffix edge t (b :: p') b s Hpt Hin) as (q & Hq & Hlq).
    specialize (Hm q Hq). cbn [length] in *. lia.
  Qed.
End Shortest.

(* ------------------------------------------------------------------ the walk of a flit under source routing *)
Section HwSrc.
  Variables (d : desc) (g : graph) (c : compiled) (ri : rinfo) (n : netlist) (t : cni).
  Variable nt : net.
  Hypothesis Hnt : net_ok d nt.
  Hypothesis Hb : build d = Ok g.
  Hypothesis Hc : compile d g = Ok c.
  Hypothesis He : emit c ri = Ok n.
  Hypothesis Ht : In t (c_nis c).
  Let tname := cn_name t.
  Hypothesis Hwire : forall l, In l (n_links n) -> fst l = net_type nt -> signal_ok n l.

  Let Hnd : NoDup (map cr_name (c_rts c)) := built_router_names_nodup d g c Hb Hc.

  Lemma find_crt_some a r : find_crt c a = Some r -> In r (c_rts c) /\ cr_name r = a.
  Proof. unfold find_crt. intros H. apply find_some in H. destruct H as (H1 & H2). apply str_eqb_eq in H2. auto. Qed.

  (* one routing decision of an emitted router under SourceRouting *)
  Lemma hw_select_src r x w : emit_rt (c_desc c) ri r = Ok x ->
    select n x (HRoute w) = Ok (w mod 2 ^ clog2 (Z.of_nat (length (cr_out r))), HRoute (w / 2 ^ clog2 (Z.of_nat (length (cr_out r))))).
  Proof. intros Hx. unfold emit_rt in Hx. cbv zeta in Hx. inv_bind Hx. inversion Hx; subst x. reflexivity. Qed.

  Theorem hw_src_walk : forall path ps r inp prev,
    ports_along c path = Ok ps -> hd_error path = Some (cr_name r) -> In r (c_rts c) ->
    (2 <= length path)%nat -> last path "" = tname -> NoDup (prev :: path) ->
    nth_error (cr_in r) inp = Some (Some (prev, cr_name r)) ->
    forall fuel rts sigs, (length ps <= fuel)%nat ->
      let tr := walk fuel n nt (URt (cr_name r) inp) (HRoute (word_value ps)) rts sigs in
      t_out tr = Delivered tname (HRoute 0) /\ length (t_rts tr) = (length rts + length ps)%nat /\
      t_sigs tr = rev sigs ++ map (flow nt) (consecutive path) /\ Forall (is_link_of g) (consecutive path).
  Proof.
    induction path as [|a tl IH]; intros ps r inp prev Hps Hhd Hr Hlen Hlast Hnodup Hinp fuel rts sigs Hfuel; [discriminate|].
    cbn in Hhd. inversion Hhd; subst a; clear Hhd.
    destruct tl as [|b tl']; [cbn in Hlen; lia|].
    cbn [ports_along] in Hps. destruct (find_crt c (cr_name r)) as [r'|] eqn:Er; [|discriminate].
    destruct (find_crt_some _ _ Er) as (Hr' & Hn').
    assert (r' = r) by (eapply NoDup_map_eq; [exact Hnd|exact Hr'|exact Hr|exact Hn']). subst r'.
    destruct (out_index r (cr_name r, b)) as [k1|] eqn:Ek; [|discriminate]. inv_bind Hps. inversion Hps; subst ps; clear Hps.
    unfold out_index in Ek. pose proof (slot_index_lt _ _ _ Ek) as Hlt.
    destruct (slot_index_nth _ _ _ Ek) as (l' & Hk1 & Hl). apply link_eqb_eq in Hl. subst l'.
    set (bw := clog2 (Z.of_nat (length (cr_out r)))) in *.
    assert (Hbw : 0 <= bw) by apply clog2_nonneg.
    assert (Hkb : 0 <= Z.of_nat k1 < 2 ^ bw).
    { split; [lia|]. pose proof (clog2_spec (Z.of_nat (length (cr_out r))) ltac:(lia)) as Hs. fold bw in Hs. lia. }
    destruct (word_peel (Z.of_nat k1) bw (word_value a) Hbw Hkb) as (Hm & Hd).
    cbn [length] in Hfuel. destruct fuel as [|fuel]; [lia|]. cbv zeta. cbn [walk word_value].
    destruct (emitted_rt c ri n He Hnd r Hr) as (x & Hx & Hfind & Hname & _).
    rewrite Hfind, (hw_select_src r x _ Hx). fold bw. rewrite Hm, Hd.
    destruct (crt_out_link d g c Hb Hc r k1 (cr_name r) b Hr Hk1) as (_ & Hin1 & Hlink).
    assert (Hne : inp <> k1).
    { intros ->. rewrite Hin1 in Hinp. inversion Hinp; subst prev. inversion Hnodup as [|? ? Hni _]; subst. apply Hni. cbn. auto. }
    destruct (Z.of_nat k1 <? 0) eqn:Eneg; [lia|].
    destruct (Z.of_nat inp =? Z.of_nat k1) eqn:Eeq; [lia|].
    cbn [is_xy andb].
    assert (Hcd : c_desc c = d) by apply (compile_desc d g c Hc).
    assert (Hcg : c_graph c = g) by apply (compile_desc d g c Hc).
    pose proof (out_slot d g c ri n nt Hnt Hb Hc He r x k1 _ Hr Hx Hk1) as Hslot.
    rewrite Nat2Z.id, Hslot. cbv beta iota.
    set (s := flow nt (cr_name r, b)).
    pose proof (link_declared d g c ri n nt Hnt Hb Hc He _ _ Hlink) as Hdecl. fold s in Hdecl.
    destruct (Hwire _ Hdecl eq_refl) as (nt' & dd & u & Hnt' & Hdrv & Hrd & Hnm); cbn [fst snd] in Hnt', Hdrv, Hrd, Hnm.
    assert (nt' = nt) by (rewrite net_of_type_nt in Hnt'; congruence); subst nt'.
    assert (Hxin : In x (n_rts n)) by (apply find_some in Hfind; tauto).
    assert (Hdd : dd = URt (cr_name r) k1).
    { pose proof (driver_rt_nt n nt x k1 s Hxin Hslot) as Hd1. rewrite Hdrv, Hname in Hd1. destruct Hd1 as [Hd1|[]]. exact Hd1. }
    subst dd. cbn [uref_name] in Hnm.
    assert (Hu : b = uref_name u) by (apply (flow_dst nt (cr_name r)); exact Hnm).
    unfold Hw.follow. rewrite Hrd.
    assert (Hcase := reader_cases_nt n nt s u); rewrite Hrd in Hcase; specialize (Hcase (or_introl eq_refl)).
    destruct tl' as [|b2 tl''].
    - (* b is the last node: the destination interface *)
      cbn in Hlast. cbn in E. inversion E; subst a. cbn [word_value length].
      destruct Hcase as [(y & Hy & -> & _)|(x2 & i & sl & Hx2 & -> & _ & _)].
      + cbn [uref_name] in Hu. cbn [consecutive map]. fold s.
        destruct fuel; cbn [walk t_out t_rts t_sigs]; rewrite <- Hu, Hlast, rev_length; cbn [length rev];
          (split; [reflexivity|split; [lia|split; [reflexivity|constructor; [rewrite Hlast in Hlink; exact Hlink|constructor]]]]).
      + exfalso. cbn [uref_name] in Hu.
        destruct (emit_inv _ _ _ He) as (_ & axi & rts0 & _ & Hrts & Hn). rewrite Hn in Hx2. cbn [n_rts] in Hx2.
        destruct (mapM_In _ _ _ _ Hrts Hx2) as (r2 & Hr2 & Hq2).
        destruct (emitted_rt c ri n He Hnd r2 Hr2) as (x2' & Hx2' & _ & Hn2 & _). rewrite Hq2 in Hx2'. inversion Hx2'; subst x2'.
        apply (ni_rt_disjoint d g c Hb Hc t r2 Ht Hr2). fold tname. congruence.
    - (* b is a router on the way *)
      pose proof E as E0.
      cbn [ports_along] in E. destruct (find_crt c b) as [rb|] eqn:Erb; [|discriminate].
      destruct (find_crt_some _ _ Erb) as (Hrb & Hnb).
      destruct Hcase as [(y & Hy & -> & _)|(x2 & i & sl & Hx2 & -> & Hsl & Hs)].
      + exfalso. cbn [uref_name] in Hu. rewrite (emitted_nis c ri n He) in Hy. apply in_map_iff in Hy.
        destruct Hy as (x' & <- & Hx'). apply (ni_rt_disjoint d g c Hb Hc x' rb Hx' Hrb). rewrite Hnb, Hu. reflexivity.
      + cbn [uref_name] in Hu.
        destruct (emit_inv _ _ _ He) as (_ & axi & rts0 & _ & Hrts & Hn). pose proof Hx2 as Hx2n. rewrite Hn in Hx2. cbn [n_rts] in Hx2.
        destruct (mapM_In _ _ _ _ Hrts Hx2) as (r2 & Hr2 & Hq2).
        destruct (emitted_rt c ri n He Hnd r2 Hr2) as (x2' & Hx2' & _ & Hn2 & _ & I1 & _ & I2). rewrite Hq2 in Hx2'. inversion Hx2'; subst x2'.
        assert (r2 = rb) by (eapply NoDup_map_eq; [exact Hnd|exact Hr2|exact Hrb|congruence]). subst r2.
        (* the reader's slot holds exactly this link *)
        pose proof (in_slot d g c ri n nt Hnt Hb Hc He rb x2 i sl s Hrb Hq2 Hsl Hs) as Hslotin.
        destruct Hslotin as ([a0 b0] & Eo & Hs').
        destruct (crt_facts d g c Hb Hc rb Hrb) as (_ & Hends2 & _).
        pose proof (Hends2 (a0, b0) (nth_error_In _ _ Eo)) as Hb2. cbn in Hb2.
        assert (Hbn : b0 = b) by congruence. rewrite Hbn in Hs', Eo.
        assert (a0 = cr_name r) by (symmetry; apply (flow_src nt (cr_name r) b a0); exact Hs'). subst a0.
        rewrite Hn2. rewrite <- Hnb in Eo.
        assert (Hnodup' : NoDup (cr_name r :: b :: b2 :: tl'')) by (inversion Hnodup; assumption).
        assert (Hhd : hd_error (b :: b2 :: tl'') = Some (cr_name rb)) by (cbn; rewrite Hnb; reflexivity).
        assert (Hlast' : last (b :: b2 :: tl'') "" = tname) by (rewrite <- Hlast; cbn [last]; reflexivity).
        assert (E0' : ports_along c (b :: b2 :: tl'') = Ok a) by (cbn [ports_along]; rewrite Erb; exact E0).
        destruct (IH a rb i (cr_name r) E0' Hhd Hrb ltac:(cbn [length]; lia) Hlast' Hnodup' Eo fuel (cr_name r :: rts) (s :: sigs) ltac:(lia))
          as (I1' & I2' & I3' & I4').
        split; [exact I1'|]. split; [rewrite I2'; cbn [length]; lia|].
        rewrite (consecutive_cons2' (cr_name r) b (b2 :: tl'')). split.
        * rewrite I3'. cbn [rev map]. rewrite <- app_assoc. reflexivity.
        * constructor; [exact Hlink|exact I4'].
  Qed.
End HwSrc.

Lemma ports_along_routers c : forall path ps, ports_along c path = Ok ps ->
  S (length ps) = length path \/ (path = [] /\ ps = []).
Proof.
  induction path as [|a tl IH]; intros ps H; [right; cbn in H; inversion H; auto|].
  destruct tl as [|b tl']; [left; cbn in H; inversion H; reflexivity|].
  cbn [ports_along] in H. destruct (find_crt c a); [|discriminate]. destruct (out_index _ _); [|discriminate].
  inv_bind H. inversion H; subst. destruct (IH _ E) as [Hl|(Hc & _)]; [|discriminate]. left. cbn [length] in *. lia.
Qed.
Lemma ports_along_incl c : forall path ps, ports_along c path = Ok ps ->
  incl (removelast path) (map cr_name (c_rts c)).
Proof.
  induction path as [|a tl IH]; intros ps H; [intros x []|].
  destruct tl as [|b tl']; [intros x []|].
  cbn [ports_along] in H. destruct (find_crt c a) as [r|] eqn:Er; [|discriminate]. destruct (out_index _ _); [|discriminate].
  inv_bind H. specialize (IH _ E). change (removelast (a :: b :: tl')) with (a :: removelast (b :: tl')).
  intros x [<-|Hx]; [|apply IH; exact Hx].
  unfold find_crt in Er. apply find_some in Er. destruct Er as (Hin & Hn). apply str_eqb_eq in Hn. rewrite <- Hn. apply in_map. exact Hin.
Qed.

Section HwSrcSend.
  Variables (sp : oracle) (d : desc) (g : graph) (c : compiled) (ri : rinfo) (n : netlist) (t : cni).
  Variable nt : net.
  Hypothesis Hnt : net_ok d nt.
  Hypothesis Hb : build d = Ok g.
  Hypothesis Hc : compile d g = Ok c.
  Hypothesis He : emit c ri = Ok n.
  Hypothesis Ht : In t (c_nis c).
  Let tname := cn_name t.
  Let gedge (u v : string) : Prop := exists e, In e (g_edges g) /\ e_src e = u /\ e_dst e = v.
  Hypothesis Hwire : forall l, In l (n_links n) -> fst l = net_type nt -> signal_ok n l.
  Let Hnd : NoDup (map cr_name (c_rts c)) := built_router_names_nodup d g c Hb Hc.
  Let Hcd : c_desc c = d := proj1 (compile_desc d g c Hc).
  Let Hcg : c_graph c = g := proj2 (compile_desc d g c Hc).

  (* who reads what interface s0 injects on net nt *)
  Lemma inject_reader s0 r0 : In s0 (c_nis c) -> snd (attach nt s0) = r0 ->
    ni_out nt (emit_ni d (ri_offset ri) s0) = Some (flow nt (cn_name s0, r0)) /\
    exists u, readers n nt (flow nt (cn_name s0, r0)) = [u] /\
      ((exists y, In y (c_nis c) /\ u = UNi (cn_name y) /\ cn_name y = r0) \/
       (exists r i, In r (c_rts c) /\ u = URt (cr_name r) i /\ cr_name r = r0 /\
                    nth_error (cr_in r) i = Some (Some (cn_name s0, r0)))).
  Proof.
    intros Hs0 Hr0.
    destruct (attach_link d g c ri nt Hnt Hb Hc s0 Hs0) as (Hfst & Hlink & Hout).
    assert (Hml : attach nt s0 = (cn_name s0, r0)) by (destruct (attach nt s0); cbn in *; congruence).
    rewrite Hml in Hlink, Hout. split; [exact Hout|].
    set (s := flow nt (cn_name s0, r0)).
    pose proof (link_declared d g c ri n nt Hnt Hb Hc He _ _ Hlink) as Hdecl. fold s in Hdecl.
    destruct (Hwire _ Hdecl eq_refl) as (nt' & dd & u & Hnt' & Hdrv & Hrd & Hnm); cbn [fst snd] in Hnt', Hdrv, Hrd, Hnm.
    assert (nt' = nt) by (rewrite net_of_type_nt in Hnt'; congruence); subst nt'.
    assert (Hdd : dd = UNi (cn_name s0)).
    { assert (Hin : In (UNi (cn_name s0)) (drivers n nt s)).
      { unfold drivers. apply in_app_iff. left. apply in_flat_map. exists (emit_ni d (ri_offset ri) s0). split.
        - rewrite (emitted_nis c ri n He), Hcd. apply in_map. exact Hs0.
        - rewrite Hout. fold s. unfold opt_is. rewrite (proj2 (str_eqb_eq s s) eq_refl). left. reflexivity. }
      rewrite Hdrv in Hin. destruct Hin as [Hin|[]]. exact Hin. }
    subst dd. cbn [uref_name] in Hnm.
    assert (Hu : r0 = uref_name u) by (apply (flow_dst nt (cn_name s0)); exact Hnm).
    exists u. split; [exact Hrd|].
    assert (Hcase := reader_cases_nt n nt s u); rewrite Hrd in Hcase; specialize (Hcase (or_introl eq_refl)).
    destruct Hcase as [(y & Hy & -> & _)|(x2 & i & sl & Hx2 & -> & Hsl & Hs)].
    - left. cbn [uref_name] in Hu. rewrite (emitted_nis c ri n He) in Hy. apply in_map_iff in Hy.
      destruct Hy as (x' & <- & Hx'). exists x'. cbn [emit_ni ni_name] in *. auto.
    - right. cbn [uref_name] in Hu.
      destruct (emit_inv _ _ _ He) as (_ & axi & rts0 & _ & Hrts & Hn). rewrite Hn in Hx2. cbn [n_rts] in Hx2.
      destruct (mapM_In _ _ _ _ Hrts Hx2) as (r2 & Hr2 & Hq2).
      destruct (emitted_rt c ri n He Hnd r2 Hr2) as (x2' & Hx2' & _ & Hn2 & _ & I1 & _ & I2). rewrite Hq2 in Hx2'. inversion Hx2'; subst x2'.
      pose proof (in_slot d g c ri n nt Hnt Hb Hc He r2 x2 i sl s Hr2 Hq2 Hsl Hs) as Hslotin.
      destruct Hslotin as ([a0 b0] & Eo & Hs').
      destruct (crt_facts d g c Hb Hc r2 Hr2) as (_ & Hends2 & _).
      pose proof (Hends2 (a0, b0) (nth_error_In _ _ Eo)) as Hb2. cbn in Hb2.
      assert (Hbn : b0 = r0) by congruence. rewrite Hbn in Hs', Eo.
      assert (a0 = cn_name s0) by (symmetry; apply (flow_src nt (cn_name s0) r0 a0); exact Hs'). subst a0.
      exists r2, i. rewrite Hn2. repeat split; auto. congruence.
  Qed.

  (* C03 on the hardware model: the word gen_route emits for (s0, t), injected at s0 on net nt, steers the flit
     to t, is consumed completely, and traverses exactly the routers of the oracle's path *)
  Theorem hw_src_send_full s0 id ps p :
    In s0 (c_nis c) -> gen_route sp c s0 t = Ok (id, Some ps) ->
    sp g (cn_name s0) tname = Some p -> shortest gedge tname p (cn_name s0) ->
    snd (attach nt s0) = hd "" (tl p) ->
    let tr := send n nt (emit_ni d (ri_offset ri) s0) (HRoute (word_value ps)) in
    t_out tr = Delivered tname (HRoute 0) /\ length (t_rts tr) = length ps /\ (2 + length ps = length p)%nat /\
    (* the signals crossed are those of the links along the path, which is simple *)
    t_sigs tr = map (flow nt) (consecutive p) /\ NoDup p /\ Forall (is_link_of g) (consecutive p).
  Proof.
    intros Hs0 Hgr Hsp Hshort Hatt. cbv zeta.
    destruct (attach_link d g c ri nt Hnt Hb Hc s0 Hs0) as (Hafst & Halink & _).
    unfold gen_route in Hgr. inv_bind Hgr.
    destruct (str_eqb (cn_name s0) (cn_name t) || only_mgr s0 && only_mgr t || only_sbr s0 && only_sbr t) eqn:Ecase; [inversion Hgr|].
    apply orb_false_iff in Ecase. destruct Ecase as (Ecase & _). apply orb_false_iff in Ecase. destruct Ecase as (Hne & _).
    assert (Hne' : cn_name s0 <> tname) by (intros Heq; apply str_eqb_eq in Heq; unfold tname in *; congruence).
    rewrite Hcg in Hgr. fold tname in Hgr. rewrite Hsp in Hgr.
    destruct p as [|first inner]; [discriminate|]. inv_bind Hgr. inversion Hgr; subst ps; clear Hgr.
    rename E0 into Hports.
    destruct Hshort as (Hpath & Hmin).
    destruct (path_head _ _ _ _ Hpath) as (rest0 & Eh). inversion Eh; subst first rest0; clear Eh.
    pose proof (shortest_nodup gedge tname _ _ (conj Hpath Hmin)) as Hnodup.
    cbn [tl] in Hatt.
    destruct inner as [|r0 inner'].
    { exfalso. destruct Hpath as (_ & _ & Hl & _). cbn in Hl. contradiction. }
    cbn [hd] in Hatt.
    destruct (inject_reader s0 r0 Hs0 Hatt) as (Hout & u & Hrd & Hcases).
    unfold send. rewrite Hout. unfold Hw.follow. rewrite Hrd.
    assert (Hlast : last (r0 :: inner') "" = tname).
    { destruct Hpath as (_ & _ & Hl & _). rewrite <- Hl. cbn [last]. apply last_indep. }
    destruct inner' as [|b inner''].
    - (* s0 is linked directly to t *)
      cbn in Hlast. cbn in Hports. inversion Hports; subst a0. cbn [word_value length].
      destruct Hcases as [(y & Hy & -> & Hny)|(r & i & Hr & -> & Hnr & _)].
      + cbn [walk t_out t_rts t_sigs rev app consecutive map]. rewrite Hny, Hlast.
        assert (Hl0 : is_link_of g (cn_name s0, r0)) by (destruct (attach nt s0) as [a1 a2]; cbn [fst snd] in *; subst a1 a2; exact Halink).
        rewrite Hlast in Hnodup, Hl0.
        split; [reflexivity|]. split; [reflexivity|]. split; [reflexivity|]. split; [reflexivity|]. split; [exact Hnodup|].
        constructor; [exact Hl0|constructor].
      + exfalso. apply (ni_rt_disjoint d g c Hb Hc t r Ht Hr). fold tname. congruence.
    - pose proof Hports as Hports0. cbn [ports_along] in Hports. destruct (find_crt c r0) as [r|] eqn:Er; [|discriminate].
      unfold find_crt in Er. apply find_some in Er. destruct Er as (Hr & Hnr). apply str_eqb_eq in Hnr.
      destruct Hcases as [(y & Hy & -> & Hny)|(r2 & i & Hr2 & -> & Hnr2 & Hin)].
      + exfalso. apply (ni_rt_disjoint d g c Hb Hc y r Hy Hr). congruence.
      + assert (r2 = r) by (eapply NoDup_map_eq; [exact Hnd|exact Hr2|exact Hr|congruence]). subst r2.
        clear Hports. rewrite <- Hnr in Hports0, Hin, Hnodup, Hlast.
        destruct (ports_along_routers c _ _ Hports0) as [Hlen|(Hc0 & _)]; [|discriminate].
        pose proof (ports_along_incl c _ _ Hports0) as Hincl.
        assert (Hnd2 : NoDup (cr_name r :: b :: inner'')) by (inversion Hnodup; assumption).
        pose proof (NoDup_incl_length (NoDup_removelast _ Hnd2) Hincl) as Hle. rewrite map_length in Hle.
        rewrite removelast_length in Hle by discriminate.
        assert (Hfuel : (length a0 <= S (length (n_rts n)))%nat).
        { destruct (emit_inv _ _ _ He) as (_ & axi & rts & _ & Hrts & Hn). rewrite Hn. cbn [n_rts].
          rewrite (mapM_length _ _ _ Hrts). cbn [length] in *. lia. }
        destruct (hw_src_walk d g c ri n t nt Hnt Hb Hc He Ht Hwire (cr_name r :: b :: inner'') a0 r i (cn_name s0)
                    Hports0 eq_refl Hr ltac:(cbn [length]; lia) Hlast Hnodup Hin (S (length (n_rts n))) [] [flow nt (cn_name s0, cr_name r)] Hfuel)
          as (W1 & W2 & W3 & W4).
        assert (Hl0 : is_link_of g (cn_name s0, cr_name r)).
        { rewrite Hnr. destruct (attach nt s0) as [a1 a2]; cbn [fst snd] in *; subst a1 a2; exact Halink. }
        rewrite <- Hnr. split; [exact W1|]. split; [rewrite W2; reflexivity|]. split; [cbn [length] in *; lia|].
        split; [|split].
        * rewrite W3. rewrite (consecutive_cons2' (cn_name s0) (cr_name r) (b :: inner'')). reflexivity.
        * exact Hnodup.
        * rewrite (consecutive_cons2' (cn_name s0) (cr_name r) (b :: inner'')). constructor; [exact Hl0|exact W4].
  Qed.

  Corollary hw_src_send s0 id ps p :
    In s0 (c_nis c) -> gen_route sp c s0 t = Ok (id, Some ps) ->
    sp g (cn_name s0) tname = Some p -> shortest gedge tname p (cn_name s0) ->
    snd (attach nt s0) = hd "" (tl p) ->
    let tr := send n nt (emit_ni d (ri_offset ri) s0) (HRoute (word_value ps)) in
    t_out tr = Delivered tname (HRoute 0) /\ length (t_rts tr) = length ps /\ (2 + length ps = length p)%nat.
  Proof.
    intros H1 H2 H3 H4 H5. destruct (hw_src_send_full s0 id ps p H1 H2 H3 H4 H5) as (A & B0 & C0 & _). auto.
  Qed.
End HwSrcSend.

(* the emitted word fits the emitted route type, so the header field holds it unchanged *)
Lemma hdr_of_word_fits sp c ri n s0 t id ps :
  d_algo (c_desc c) = SRC -> gen_routing_info sp c = Ok ri -> emit c ri = Ok n ->
  In s0 (c_nis c) -> In t (c_nis c) -> gen_route sp c s0 t = Ok (id, Some ps) ->
  hdr_of_word n (word_value ps) = HRoute (word_value ps).
Proof.
  intros Ha Hri He Hs0 Ht Hgr.
  destruct (gen_route_follows sp c s0 t id ps Hgr) as (_ & _ & _ & _ & Hw).
  destruct (gri_inv _ _ _ Hri) as (_ & _ & _ & _ & Hroutes & _). specialize (Hroutes Ha).
  destruct (mapM_In_l _ _ _ _ Hroutes Hs0) as (e & Hein & Ee). inv_bind Ee. inversion Ee; subst e; clear Ee.
  destruct (mapM_In_l _ _ _ _ E Ht) as (r & Hr & Er). rewrite Hgr in Er. inversion Er; subst r.
  pose proof (route_bits_cover sp c ri Ha Hri (cn_name s0, a) (id, Some ps) Hein Hr) as Hcov.
  destruct (emit_inv _ _ _ He) as (_ & axi & rts & _ & _ & ->). unfold hdr_of_word. cbn [n_route_bits]. rewrite Ha.
  unfold trunc. rewrite Z.mod_small; [reflexivity|].
  assert (2 ^ route_bits_of (id, Some ps) <= 2 ^ ri_route_bits ri).
  { apply Z.pow_le_mono_r; [lia|exact Hcov]. }
  lia.
Qed.

Theorem hw_src_send_ref (d : desc) (g : graph) (c : compiled) (ri : rinfo) (n : netlist) (t : cni) (nt : net) :
  net_ok d nt ->
  build d = Ok g -> compile d g = Ok c -> gen_routing_info sp_reference c = Ok ri -> emit c ri = Ok n ->
  d_algo d = SRC -> In t (c_nis c) -> chk_C05 n = [] ->
  forall s0 id ps p, In s0 (c_nis c) -> gen_route sp_reference c s0 t = Ok (id, Some ps) ->
    sp_reference g (cn_name s0) (cn_name t) = Some p -> snd (attach nt s0) = hd "" (tl p) ->
    let tr := send n nt (emit_ni d (ri_offset ri) s0) (hdr_of_word n (word_value ps)) in
    t_out tr = Delivered (cn_name t) (HRoute 0) /\ length (t_rts tr) = length ps /\ (2 + length ps = length p)%nat.
Proof.
  intros Hnt Hb Hc Hri He Ha Ht Hchk s0 id ps p Hs0 Hgr Hsp Hatt.
  assert (Hcd : c_desc c = d) by apply (compile_desc d g c Hc).
  rewrite (hdr_of_word_fits sp_reference c ri n s0 t id ps ltac:(rewrite Hcd; exact Ha) Hri He Hs0 Ht Hgr).
  apply (hw_src_send sp_reference d g c ri n t nt Hnt Hb Hc He Ht (fun l Hl _ => proj2 (chk_C05_sound n Hchk) l Hl) s0 id ps p Hs0 Hgr Hsp); [|exact Hatt].
  split; [exact (sp_ref_path g (cn_name t) _ _ Hsp)|]. intros q Hq. exact (sp_ref_min g (cn_name t) _ _ q Hsp Hq).
Qed.
