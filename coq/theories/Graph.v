(* Graph.v — model of floogen/model/graph.py on top of networkx.DiGraph: ordered nodes, ordered
   edges, duplicate errors, array / tree construction and the node selectors.  Definitions only.

   Order facts of networkx that the model reproduces (see DESIGN.md appendix A):
   G.nodes = insertion order;  G.edges = for u in node order, for v in u's successor insertion
   order;  successor insertion order of u = order in which edges (u,_) were added. *)
From FV Require Import Base.

Inductive ntype := NRouter | NEndpoint | NNi.
Definition ntype_eqb (a b : ntype) : bool :=
  match a, b with NRouter, NRouter | NEndpoint, NEndpoint | NNi, NNi => true | _, _ => false end.

Record node := {
  n_name : string;
  n_type : ntype;
  n_arr  : option (list Z);   (* arr_idx *)
  n_lvl  : option Z;          (* lvl (trees) *)
  n_desc : string;            (* name of the descriptor object stored in "obj" *)
}.

Inductive etype := ELink | EProt.
Definition etype_eqb (a b : etype) : bool :=
  match a, b with ELink, ELink | EProt, EProt => true | _, _ => false end.

Record edge := {
  e_src : string; e_dst : string; e_type : etype;
  e_has_dirs : bool;                 (* whether the src_dir/dst_dir keys exist at all *)
  e_src_dir : option Z; e_dst_dir : option Z;
}.

Record graph := { g_nodes : list node; g_edges : list edge }.
Definition g_empty : graph := {| g_nodes := []; g_edges := [] |}.

Definition find_node (g : graph) (n : string) : option node :=
  find (fun x => str_eqb (n_name x) n) (g_nodes g).
Definition has_node (g : graph) (n : string) : bool := is_some (find_node g n).
Definition find_edge (g : graph) (u v : string) : option edge :=
  find (fun e => str_eqb (e_src e) u && str_eqb (e_dst e) v) (g_edges g).
Definition has_edge (g : graph) (u v : string) : bool := is_some (find_edge g u v).

Definition add_node (g : graph) (n : node) : res graph :=
  if has_node g (n_name n) then Err ("Node " +++ n_name n +++ " already exists in the graph.")
  else Ok {| g_nodes := g_nodes g ++ [n]; g_edges := g_edges g |}.

(* floogen only ever adds edges between existing nodes (see appendix A); an edge to a missing
   node would be created silently by networkx, which the model reports as an error *)
Definition add_edge (g : graph) (e : edge) : res graph :=
  if has_edge g (e_src e) (e_dst e)
  then Err ("Edge (" +++ e_src e +++ ", " +++ e_dst e +++ ") already exists in the graph.")
  else if negb (has_node g (e_src e) && has_node g (e_dst e))
  then Err "edge between missing nodes"
  else Ok {| g_nodes := g_nodes g; g_edges := g_edges g ++ [e] |}.

(* iteration order of DiGraph.edges *)
Definition edges_view (g : graph) : list edge :=
  flat_map (fun n => filter (fun e => str_eqb (e_src e) (n_name n)) (g_edges g)) (g_nodes g).
Definition edges_from (g : graph) (n : string) : list edge :=
  filter (fun e => str_eqb (e_src e) n) (edges_view g).
Definition edges_to (g : graph) (n : string) : list edge :=
  filter (fun e => str_eqb (e_dst e) n) (edges_view g).
Definition successors (g : graph) (n : string) : list string :=
  map e_dst (filter (fun e => str_eqb (e_src e) n) (g_edges g)).
Definition predecessors (g : graph) (n : string) : list string :=
  map e_src (filter (fun e => str_eqb (e_dst e) n) (g_edges g)).
Definition is_link (e : edge) : bool := etype_eqb (e_type e) ELink.
Definition is_prot (e : edge) : bool := etype_eqb (e_type e) EProt.
Definition nodes_of_type (g : graph) (t : ntype) : list node :=
  filter (fun n => ntype_eqb (n_type n) t) (g_nodes g).

(* ---------------------------------------------------------------- names *)
Definition idx_name (base : string) (i : Z) : string := base +++ "_" +++ Z_to_string i.
Definition full_name (base : string) (idx : list Z) : string := fold_left idx_name idx base.

(* ---------------------------------------------------------------- ranges *)
Fixpoint zcount (n : nat) (cur step : Z) : list Z :=
  match n with O => [] | S k => cur :: zcount k (cur + step) step end.
(* range(start, end + step, step) with step = 1 if end > start else -1 *)
Definition py_range_incl (a b : Z) : list Z :=
  if b >? a then zcount (Z.to_nat (b - a + 1)) a 1 else zcount (Z.to_nat (a - b + 1)) a (-1).
Definition zrange0 (n : Z) : list Z := zcount (Z.to_nat n) 0 1.   (* range(n) *)

(* ---------------------------------------------------------------- selectors *)
Fixpoint nodes_from_range (has : string -> bool) (base : string) (rng : list (Z * Z))
  : res (list string) :=
  match rng with
  | [] => Err "Range is empty"
  | [(a, b)] =>
      mapM (fun i => let n := idx_name base i in
                     if has n then Ok n else Err ("Node " +++ n +++ " does not exist"))
           (py_range_incl a b)
  | (a, b) :: rest =>
      do ls <- mapM (fun i => nodes_from_range has (idx_name base i) rest) (py_range_incl a b);
      Ok (List.concat ls)
  end.

Definition idx_joined_name (base : string) (idx : list Z) : string :=
  base +++ "_" +++ concat_with "_" (map Z_to_string idx).
Definition nodes_from_idx (has : string -> bool) (base : string) (idx : list Z) : res (list string) :=
  let n := idx_joined_name base idx in
  if has n then Ok [n] else Err ("Node " +++ n +++ " does not exist").

(* filters: name.startswith(base), then nodes[n]["lvl"] == lvl (KeyError when absent) *)
Definition nodes_from_lvl (g : graph) (base : string) (lvl : Z) : res (list string) :=
  let cand := filter (fun n => String.prefix base (n_name n)) (g_nodes g) in
  do keep <- mapM (fun n => match n_lvl n with
                            | Some l => Ok (n, l =? lvl)
                            | None => Err "KeyError: 'lvl'"
                            end) cand;
  Ok (map (fun p => n_name (fst p)) (filter snd keep)).

(* ---------------------------------------------------------------- arrays and trees *)
Definition dir_N : Z := 0.  Definition dir_E : Z := 1.  Definition dir_S : Z := 2.
Definition dir_W : Z := 3.  Definition dir_Eject : Z := 4.

Definition mk_link (u v : string) (sd dd : option Z) : edge :=
  {| e_src := u; e_dst := v; e_type := ELink; e_has_dirs := true; e_src_dir := sd; e_dst_dir := dd |}.

Definition add_array_node (name : string) (t : ntype) (desc : string) (connect : bool) (n : Z)
           (g : graph) (ij : Z * Z) : res graph :=
  let '(i, j) := ij in
  let nm := full_name name [i; j] in
  do g <- add_node g {| n_name := nm; n_type := t; n_arr := Some [i; j]; n_lvl := None; n_desc := desc |};
  do g <- (if (0 <? i) && connect then
             let w := full_name name [i - 1; j] in
             do g <- add_edge g (mk_link nm w (Some dir_W) (Some dir_E));
             add_edge g (mk_link w nm (Some dir_E) (Some dir_W))
           else Ok g);
  if (0 <? j) && connect then
    let s := full_name name [i; j - 1] in
    do g <- add_edge g (mk_link nm s (Some dir_S) (Some dir_N));
    add_edge g (mk_link s nm (Some dir_N) (Some dir_S))
  else Ok g.

(* add_nodes_as_array: [n] (endpoints only: no edges are modelled for 1-D since create_routers
   rejects 1-D router arrays) or [m; n] *)
Definition add_nodes_as_array (g : graph) (name : string) (arr : list Z) (t : ntype) (desc : string)
           (connect : bool) : res graph :=
  match arr with
  | [n] =>
      if connect then Err "1-D connected arrays are not modelled"
      else foldM (fun g i => add_node g {| n_name := idx_name name i; n_type := t; n_arr := Some [i];
                                           n_lvl := None; n_desc := desc |}) (zrange0 n) g
  | [m; n] =>
      foldM (add_array_node name t desc connect n)
            (flat_map (fun i => map (fun j => (i, j)) (zrange0 n)) (zrange0 m)) g
  | _ => Err "Unsupported array"
  end.

Fixpoint add_nodes_as_tree (g : graph) (parent : string) (tree : list Z) (lvl : Z) (desc : string)
         (connect : bool) : res graph :=
  match tree with
  | [] => Ok g
  | t :: rest =>
      foldM (fun g i =>
               let nm := idx_name parent i in
               do g <- add_node g {| n_name := nm; n_type := NRouter; n_arr := None; n_lvl := Some lvl;
                                     n_desc := desc |};
               do g <- (if connect && (0 <? lvl) then
                          do g <- add_edge g (mk_link parent nm None None);
                          add_edge g (mk_link nm parent None None)
                        else Ok g);
               add_nodes_as_tree g nm rest (lvl + 1) desc connect)
            (zrange0 t) g
  end.

(* ---------------------------------------------------------------- wire format (C18) *)
Definition sx_pair (x : sx) : res (Z * Z) :=
  match x with L [a; b] => do a <- sx_Z a; do b <- sx_Z b; Ok (a, b) | _ => Err "pair expected" end.
Definition names_res_to_sx (r : res (list string)) : sx :=
  match r with Ok l => L [A "ok"; xL xS l] | Err _ => L [A "err"] end.

(* (c18 range (dims) ((a b)...)) | (c18 idx (dims) (i...)) | (c18 lvl (tree) lvl prefix) *)
Definition handle_c18 (args : list sx) : res sx :=
  match args with
  | [A "range"; dims; rng] =>
      do dims <- sx_listof sx_Z dims; do rng <- sx_listof sx_pair rng;
      match add_nodes_as_array g_empty "A" dims NRouter "d" false with
      | Ok g => Ok (names_res_to_sx (nodes_from_range (has_node g) "A" rng))
      | Err e => Err e
      end
  | [A "idx"; dims; idx] =>
      do dims <- sx_listof sx_Z dims; do idx <- sx_listof sx_Z idx;
      match add_nodes_as_array g_empty "A" dims NRouter "d" false with
      | Ok g => Ok (names_res_to_sx (nodes_from_idx (has_node g) "A" idx))
      | Err e => Err e
      end
  | [A "lvl"; tree; lvl; pre] =>
      do tree <- sx_listof sx_Z tree; do lvl <- sx_Z lvl; do pre <- sx_str pre;
      match add_nodes_as_tree g_empty "T" tree 0 "d" true with
      | Ok g => Ok (L [names_res_to_sx (nodes_from_lvl g pre lvl);
                       xL xS (map n_name (g_nodes g));
                       xL (fun e => L [xS (e_src e); xS (e_dst e)]) (edges_view g)])
      | Err e => Err e
      end
  | _ => Err "c18: bad request"
  end.
