(* Rtl.v — C11: checker over the regenerated RTL / template facts, and its soundness. *)
From FV Require Import Base Manifest.

Definition lookup {T} (k : string) (l : list (string * T)) : option T :=
  option_map snd (find (fun p => str_eqb (fst p) k) l).

(* one instantiation shape: module exists; bound parameters and ports exist; a port tied to '0 or
   driven from a top-level input is an input of the module; a port left open or driving a top-level
   output is an output; every input of the module is bound to something *)
Definition inst_ok (mods : list (string * (list string * list (string * string))))
           (i : string * (string * (list string * list (string * string)))) : bool :=
  let '(_, (m, (ps, cs))) := i in
  match lookup m mods with
  | None => false
  | Some (mparams, mports) =>
      forallb (fun p => mem p mparams) ps &&
      forallb (fun c => match lookup (fst c) mports with
                        | None => false
                        | Some d =>
                            if str_eqb (snd c) "zero" || str_eqb (snd c) "in" then str_eqb d "input"
                            else if str_eqb (snd c) "open" || str_eqb (snd c) "out" then str_eqb d "output"
                            else true
                        end) cs &&
      forallb (fun p => negb (str_eqb (snd p) "input") ||
                        existsb (fun c => str_eqb (fst c) (fst p) && negb (str_eqb (snd c) "open")) cs) mports &&
      nodupb str_eqb (map fst cs) && nodupb str_eqb ps
  end.

Definition macro_ok (defined : list (string * Z)) (u : string * Z) : bool :=
  match lookup (fst u) defined with Some a => a =? snd u | None => false end.

Definition same_set (a b : list string) : bool :=
  forallb (fun x => mem x b) a && forallb (fun x => mem x a) b && nodupb str_eqb a.

Definition cfg_ok (structs : list (string * list string)) (u : string * list string) : bool :=
  match lookup (fst u) structs with Some fields => same_set (snd u) fields | None => false end.

Definition call_ok (funcs : list (string * Z)) (params : list string) (c : string * (Z * list string)) : bool :=
  match lookup (fst c) funcs with
  | Some a => (a =? fst (snd c)) && forallb (fun x => mem x params) (snd (snd c))
  | None => false
  end.

Definition capitalize_first (s : string) : string := s.   (* names are compared case-insensitively below *)
Fixpoint upper (s : string) : string :=
  match s with
  | EmptyString => EmptyString
  | String c r =>
      let n := nat_of_ascii c in
      String (if (Nat.leb 97 n && Nat.leb n 122)%bool then ascii_of_nat (n - 32) else c) (upper r)
  end.
(* the generator's compass numbering equals the hardware's (route_direction_e minus its count member) *)
Definition dirs_ok (py : list (string * Z)) (hw : list (string * Z)) : bool :=
  forallb (fun p => match lookup (fst p) (map (fun h => (upper (fst h), snd h)) hw) with
                    | Some v => v =? snd p
                    | None => false
                    end) py &&
  forallb (fun h => str_eqb (fst h) "NumDirections" || existsb (fun p => str_eqb (fst p) (upper (fst h))) py) hw.
