(* Compile.v — model of Network.compile_ids / compile_endpoints / compile_nis / compile_routers.
   Definitions only. *)
From FV Require Import Base AddrRange Graph Desc Build Netlist.

Definition link := (string * string)%type.      (* a link edge, identified by (source, dest) *)

(* AXI4Bus object on a protocol edge *)
Record bus := { b_proto : proto; b_ep : string; b_dir : string (* input | output *);
                b_array : option (list Z); b_idx : option (list Z) }.

Record cni := {
  cn_name : string; cn_ep : ep_desc; cn_id : idv; cn_uid : Z; cn_arr : option (list Z);
  cn_ranges : list range;
  cn_mgr_link : link; cn_sbr_link : link;
  cn_mgr_buses : list bus; cn_sbr_buses : list bus;     (* in protocol-list order *)
}.
Record crt := { cr_name : string; cr_id : option idv; cr_degree : Z;
                cr_in : list (option link); cr_out : list (option link) }.
Record compiled := { c_graph : graph; c_desc : desc; c_nis : list cni; c_rts : list crt;
                     c_dirs : list (string * string) (* protocol name -> direction *) }.

Definition find_ep (d : desc) (name : string) : option ep_desc :=
  find (fun e => str_eqb (ep_name e) name) (d_eps d).
Definition find_rtd (d : desc) (name : string) : option rt_desc :=
  find (fun r => str_eqb (rt_name r) name) (d_rts d).

(* ---------------------------------------------------------------- ids *)
Definition to_coords (dir : Z) : res (Z * Z) :=
  if dir =? 0 then Ok (0, 1) else if dir =? 1 then Ok (1, 0) else if dir =? 2 then Ok (0, -1)
  else if dir =? 3 then Ok (-1, 0) else if dir =? 4 then Ok (0, 0) else Err "KeyError: direction".

Definition ep_nodes (g : graph) : list node := nodes_of_type g NEndpoint.
Definition uid_of (g : graph) (ep_node : string) : res Z :=
  match index_of str_eqb ep_node (map n_name (ep_nodes g)) with
  | Some i => Ok (Z.of_nat i)
  | None => Err "endpoint node not found"
  end.

(* XY coordinate of a router: Coord(x, y) of its arr_idx (KeyError / unpack error otherwise) *)
Definition router_coord (n : node) : res (Z * Z) :=
  match n_arr n with
  | Some [x; y] => Ok (x, y)
  | _ => Err "router without a 2-D array index under XY routing"
  end.

Definition rt_coord_of (g : graph) (name : string) : option (Z * Z) :=
  match find_node g name with
  | Some n => match n_type n, router_coord n with
              | NRouter, Ok c => Some c
              | _, _ => None
              end
  | None => None
  end.

(* the NI's coordinate: first successor that has an id (routers; earlier NIs cannot be successors) and
   names a direction on either edge *)
Fixpoint ni_xy_scan (g : graph) (ni : string) (succs : list string) : res (option (Z * Z)) :=
  match succs with
  | [] => Ok None
  | s :: rest =>
      match rt_coord_of g s with
      | None => ni_xy_scan g ni rest
      | Some (x, y) =>
          match find_edge g ni s with
          | None => Err "KeyError: edge"
          | Some e1 =>
              match e_dst_dir e1 with
              | Some dd => do d <- to_coords dd; Ok (Some (x + fst d, y + snd d))
              | None =>
                  match find_edge g s ni with
                  | None => Err "KeyError: reverse edge"
                  | Some e2 =>
                      match e_src_dir e2 with
                      | Some sd => do d <- to_coords sd; Ok (Some (x + fst d, y + snd d))
                      | None => ni_xy_scan g ni rest
                      end
                  end
              end
          end
      end
  end.

Definition ni_id (g : graph) (d : desc) (ni : node) (uid : Z) : res idv :=
  match d_algo d with
  | XY =>
      (* all routers must have coordinates (first stage of compile_ids) *)
      do c <- ni_xy_scan g (n_name ni) (successors g (n_name ni));
      match c with
      | Some (x, y) => Ok (IdXY x y 0)
      | None => Err "Cannot derive the XY coordinate: connection needs a direction"
      end
  | _ => Ok (IdN uid)
  end.

(* ---------------------------------------------------------------- protocol directions *)
Definition find_proto (d : desc) (name : string) : res proto :=
  match find (fun p => str_eqb (p_name p) name) (d_protos d) with
  | Some p => Ok p
  | None => Err "StopIteration: protocol"
  end.
Definition dir_get (k : string) (m : list (string * string)) : option string :=
  option_map snd (find (fun p => str_eqb (fst p) k) m).

(* compile_endpoints over the endpoint nodes in node order; returns the direction map *)
Definition claim_dirs (d : desc) (role : string) (names : list string) (m : list (string * string))
  : res (list (string * string)) :=
  foldM (fun m nm =>
           do _ <- find_proto d nm;
           match dir_get nm m with
           | None => Ok (m ++ [(nm, role)])
           | Some r => if str_eqb r role then Ok m
                       else Err "Protocol cannot be used for both manager and subordinate"
           end) names m.

(* the ports of the top module are named <endpoint>_<protocol>: two (endpoint, protocol) uses must not share that name *)
Definition port_base_names (d : desc) : list string :=
  flat_map (fun e => map (fun p => ep_name e +++ "_" +++ p)
                         ((match ep_mgr e with Some l => l | None => [] end) ++ (match ep_sbr e with Some l => l | None => [] end)))
           (d_eps d).

Definition compile_endpoints (d : desc) (g : graph) : res (list (string * string)) :=
  if negb (nodupb str_eqb (port_base_names d)) then Err "ValueError: the ports of two endpoint protocols have the same name" else
  foldM (fun m n =>
           match find_ep d (n_desc n) with
           | None => Err "endpoint descriptor"
           | Some e =>
               do m <- match ep_mgr e with Some l => claim_dirs d "input" l m | None => Ok m end;
               match ep_sbr e with Some l => claim_dirs d "output" l m | None => Ok m end
           end) (ep_nodes g) [].

(* ---------------------------------------------------------------- network interfaces *)
Definition link_edges_from (g : graph) (n : string) : list edge := filter is_link (edges_from g n).
Definition link_edges_to (g : graph) (n : string) : list edge := filter is_link (edges_to g n).

Definition mk_buses (d : desc) (e : ep_desc) (role : string) (names : option (list string)) (arr_idx : option (list Z))
  : res (list bus) :=
  match names with
  | None => Ok []
  | Some l => mapM (fun nm => do p <- find_proto d nm;
                              Ok {| b_proto := p; b_ep := ep_name e; b_dir := role; b_array := ep_array e;
                                    b_idx := match ep_array e with Some _ => arr_idx | None => None end |}) l
  end.

Definition compile_ni (d : desc) (g : graph) (ni : node) : res cni :=
  match find_ep d (n_desc ni) with
  | None => Err "network interface without descriptor"
  | Some e =>
      (* the endpoint node of this interface has the same position among the endpoint's instances *)
      let ep_node := match n_arr ni with Some idx => full_name (ep_name e) idx | None => ep_name e end in
      do uid <- uid_of g ep_node;
      do id <- ni_id g d ni uid;
      do ranges0 <- mapM range_of_spec (ep_ranges e);
      do ranges <- match ep_array e, n_arr ni with
                   | None, _ => Ok ranges0
                   | Some [_], Some [i] => if ep_is_sbr e then mapM (fun r => set_idx r i) ranges0 else Ok ranges0
                   | Some [_; n], Some [x; y] =>
                       if ep_is_sbr e then mapM (fun r => set_idx r (x * n + y)) ranges0 else Ok ranges0
                   | _, _ => Err "Invalid endpoint array description"
                   end;
      (* a network interface has one port towards the network: exactly one link in each direction *)
      do ml <- match link_edges_from g (n_name ni) with
               | [e1] => Ok (e_src e1, e_dst e1)
               | _ => Err "ValueError: endpoint must be connected to exactly one router"
               end;
      do sl <- match link_edges_to g (n_name ni) with
               | [e1] => Ok (e_src e1, e_dst e1)
               | _ => Err "ValueError: endpoint must be connected to exactly one router"
               end;
      do mb <- mk_buses d e "input" (ep_mgr e) (n_arr ni);
      do sb <- mk_buses d e "output" (ep_sbr e) (n_arr ni);
      Ok {| cn_name := n_name ni; cn_ep := e; cn_id := id; cn_uid := uid; cn_arr := n_arr ni; cn_ranges := ranges;
            cn_mgr_link := ml; cn_sbr_link := sl; cn_mgr_buses := mb; cn_sbr_buses := sb |}
  end.

(* ---------------------------------------------------------------- routers *)
(* Python list indexing with a possibly negative index *)
Definition py_index (len i : Z) : res nat :=
  if (0 <=? i) && (i <? len) then Ok (Z.to_nat i)
  else if (i <? 0) && (0 <=? len + i) then Ok (Z.to_nat (len + i))
  else Err "IndexError: list assignment index out of range".

Definition place (what : string) (slots : list (option link)) (dir : Z) (l : link) : res (list (option link)) :=
  do i <- py_index (Z.of_nat (length slots)) dir;
  match nth i slots None with
  | Some _ => Err ("Trying to set " +++ what +++ " link: already taken")
  | None => Ok (update_nth i (Some l) slots)
  end.

(* fill the free slots, left to right, with the undirected links in their order *)
Fixpoint fill_free (slots : list (option link)) (ls : list link) : list (option link) * list link :=
  match slots with
  | [] => ([], ls)
  | Some x :: rest => let '(r, rem) := fill_free rest ls in (Some x :: r, rem)
  | None :: rest =>
      match ls with
      | [] => (slots, [])
      | l :: ls' => let '(r, rem) := fill_free rest ls' in (Some l :: r, rem)
      end
  end.

Definition compile_router (d : desc) (g : graph) (rt : node) (rid : option idv) : res crt :=
  let name := n_name rt in
  let ins := filter is_link (edges_to g name) in
  let outs := filter is_link (edges_from g name) in
  let dir_in := filter (fun e => is_some (e_dst_dir e)) ins in
  let dir_out := filter (fun e => is_some (e_src_dir e)) outs in
  let nd_in := filter (fun e => negb (is_some (e_dst_dir e))) ins in
  let degree := match find_rtd d (n_desc rt) with
                | Some r => match rt_degree r with Some k => k | None => Z.of_nat (length ins) end
                | None => Z.of_nat (length ins)
                end in
  if degree <? 0 then Err "negative degree" else
  let empty := repeat (@None link) (Z.to_nat degree) in
  do incoming <- foldM (fun sl e => place "incoming" sl (opt_default 0 (e_dst_dir e)) (e_src e, e_dst e)) dir_in empty;
  do outgoing <- foldM (fun sl e => place "outgoing" sl (opt_default 0 (e_src_dir e)) (e_src e, e_dst e)) dir_out empty;
  (* undirected outgoing links in the order of their incoming counterparts *)
  do nd_out <- mapM (fun e => match find_edge g (e_dst e) (e_src e) with
                              | Some _ => Ok (e_dst e, e_src e)
                              | None => Err "KeyError: reverse edge"
                              end) nd_in;
  let '(incoming, left_in) := fill_free incoming (map (fun e => (e_src e, e_dst e)) nd_in) in
  let '(outgoing, left_out) := fill_free outgoing nd_out in
  match left_in, left_out with
  | [], [] => Ok {| cr_name := name; cr_id := rid; cr_degree := degree; cr_in := incoming; cr_out := outgoing |}
  | _, _ => Err "AssertionError: undirected links left over"
  end.

Definition compile (d : desc) (g : graph) : res compiled :=
  (* compile_ids, first stage: under XY every router needs a 2-D array index *)
  do rids <- mapM (fun n => match d_algo d with
                            | XY => do c <- router_coord n; Ok (Some (IdXY (fst c) (snd c) 0))
                            | _ => Ok None
                            end) (nodes_of_type g NRouter);
  (* compile_ids for network interfaces happens per interface (compile_ni); its errors come first *)
  do ids <- mapM (fun ni => match find_ep d (n_desc ni) with
                            | Some e =>
                                let ep_node := match n_arr ni with Some idx => full_name (ep_name e) idx | None => ep_name e end in
                                do uid <- uid_of g ep_node; ni_id g d ni uid
                            | None => Err "network interface without descriptor"
                            end) (nodes_of_type g NNi);
  (* under XY the coordinate is the routing identity: two interfaces with one coordinate are rejected *)
  do _ <- match d_algo d with
          | XY => if nodupb idv_eqb ids then Ok tt else Err "ValueError: two endpoints have the same XY coordinate"
          | _ => Ok tt
          end;
  (* compile_links: the signals of a link are named <source>_to_<dest>, two links must not share that name;
     only axi / narrow-wide without virtual channels *)
  do _ <- if nodupb str_eqb (map (fun e => e_src e +++ "_to_" +++ e_dst e) (filter is_link (g_edges g))) then Ok tt
          else Err "ValueError: two links have the same name";
  do dirs <- compile_endpoints d g;
  do nis <- mapM (compile_ni d g) (nodes_of_type g NNi);
  do rts <- mapM (fun p => compile_router d g (fst p) (snd p)) (zip (nodes_of_type g NRouter) rids);
  Ok {| c_graph := g; c_desc := d; c_nis := nis; c_rts := rts; c_dirs := dirs |}.
