(* Where the hardware walk delivers, no mask was hit, and the route as emitted (Hw.walk_free) is the same trace. *)
From FV Require Import Base Netlist Hw.

Lemma walk_free_eq n nt fuel : forall cur h rts sigs t rest,
  t_out (walk fuel n nt cur h rts sigs) = Delivered t rest ->
  walk_free fuel n nt cur h rts sigs = walk fuel n nt cur h rts sigs.
Proof.
  induction fuel as [|f IH]; intros cur h rts sigs t rest H; destruct cur as [u|rn inp]; cbn [walk walk_free] in *;
    try reflexivity.
  destruct (find_rt n rn) as [r|]; [|reflexivity].
  destruct (select n r h) as [[p h']|e]; [|reflexivity].
  destruct (p <? 0); [reflexivity|].
  destruct (Z.of_nat inp =? p); [cbn [t_out] in H; discriminate|].
  destruct (is_xy h && xy_masked (Z.of_nat inp) p); [cbn [t_out] in H; discriminate|].
  destruct (nth_error (rt_outs nt r) (Z.to_nat p)) as [[|s [|s' l]]|]; try reflexivity.
  destruct (follow n nt s rn) as [u|e]; [|reflexivity].
  apply (IH _ _ _ _ t rest H).
Qed.

Lemma send_free_eq n nt x h t rest :
  t_out (send n nt x h) = Delivered t rest -> send_free n nt x h = send n nt x h.
Proof.
  unfold send, send_free. destruct (ni_out nt x) as [s|]; [|reflexivity].
  destruct (follow n nt s (ni_name x)) as [u|e]; [|reflexivity].
  apply walk_free_eq.
Qed.
