(* Proofs about RouteMap.v: the overlap check decides pairwise disjointness (C01, C16) and
   trim preserves decoding, disjointness, sizes and leaves no touching same-port rules (C16). *)
From FV Require Import Base RouteMap.
From Coq Require Import Sorting.Permutation ZifyBool.

(* ------------------------------------------------------------------ vocabulary *)
Definition wf (r : rule) : Prop := st r < en r.
Definition size_ok (r : rule) : Prop := sz r = en r - st r.
Definition matches (r : rule) (a : Z) : Prop := st r <= a < en r.
Definition decodes (t : list rule) (a p : Z) : Prop :=
  exists r, In r t /\ matches r a /\ dest r = p.
Definition disj (r s : rule) : Prop := en r <= st s \/ en s <= st r.
Definition ntouch (r s : rule) : Prop :=
  ~ (dest r = dest s /\ (en r = st s \/ en s = st r)).

Fixpoint pairwise {T} (R : T -> T -> Prop) (l : list T) : Prop :=
  match l with
  | [] => True
  | x :: xs => Forall (R x) xs /\ pairwise R xs
  end.
Definition pdisj := pairwise disj.
Definition no_touch := pairwise ntouch.

(* ------------------------------------------------------------------ generic pairwise lemmas *)
Section Pairwise.
  Context {T : Type} (R : T -> T -> Prop) (Rsym : forall x y, R x y -> R y x).

  Lemma pairwise_app l1 l2 :
    pairwise R (l1 ++ l2) <->
    pairwise R l1 /\ pairwise R l2 /\ (forall x y, In x l1 -> In y l2 -> R x y).
  Proof.
    induction l1 as [|a l1 IH]; cbn [app pairwise].
    - split; [intros H; repeat split; auto; intros x y []|tauto].
    - rewrite Forall_app, IH, !Forall_forall. split.
      + intros ((H1 & H2) & H3 & H4 & H5). repeat split; auto.
        intros x y [<-|Hx] Hy; auto.
      + intros ((H1 & H2) & H3 & H4). repeat split; auto.
        intros y Hy. apply H4; cbn; auto.
        intros x y Hx Hy. apply H4; cbn; auto.
  Qed.

  Lemma pairwise_In l x y : pairwise R l -> In x l -> In y l -> x <> y -> R x y.
  Proof.
    induction l as [|a l IH]; cbn [pairwise]; [intros _ []|].
    intros (H1 & H2) [<-|Hx] [<-|Hy] Hne; try congruence.
    - rewrite Forall_forall in H1; auto.
    - rewrite Forall_forall in H1; auto.
    - auto.
  Qed.

  Lemma pairwise_perm l l' : Permutation l l' -> pairwise R l -> pairwise R l'.
  Proof.
    induction 1 as [|x l l' Hp IH|x y l|l l' l'' H1 IH1 H2 IH2]; cbn [pairwise]; auto.
    - intros (H1 & H2). split; auto. eapply Permutation_Forall; eauto.
    - intros (H1 & H2 & H3). inversion H1 as [|? ? Hyx Hyl]; subst.
      repeat split; auto.
  Qed.

  Lemma pairwise_filter f l : pairwise R l -> pairwise R (filter f l).
  Proof.
    induction l as [|a l IH]; cbn [filter pairwise]; auto.
    intros (H1 & H2). destruct (f a); cbn [pairwise]; auto.
    split; auto. rewrite Forall_forall in *. intros x Hx. apply filter_In in Hx. apply H1; tauto.
  Qed.

  Lemma pairwise_flat_map {K} (f : K -> list T) (ds : list K) :
    NoDup ds ->
    (forall d, In d ds -> pairwise R (f d)) ->
    (forall d d' x y, In d ds -> In d' ds -> d <> d' -> In x (f d) -> In y (f d') -> R x y) ->
    pairwise R (flat_map f ds).
  Proof.
    induction ds as [|d ds IH]; cbn [flat_map]; [cbn; auto|].
    intros Hnd Hin Hx. inversion Hnd as [|? ? Hni Hnd']; subst.
    apply pairwise_app. repeat split.
    - apply Hin; cbn; auto.
    - apply IH; auto.
      + intros d' Hd'. apply Hin; cbn; auto.
      + intros d1 d2 x y H1 H2. apply Hx; cbn; auto.
    - intros x y Hxin Hyin. apply in_flat_map in Hyin. destruct Hyin as (d' & Hd' & Hy).
      apply (Hx d d'); cbn; auto. intros ->. contradiction.
  Qed.
End Pairwise.

Lemma disj_sym r s : disj r s -> disj s r.
Proof. unfold disj; tauto. Qed.
Lemma ntouch_sym r s : ntouch r s -> ntouch s r.
Proof. unfold ntouch. intros H (H1 & H2). apply H. split; [congruence|tauto]. Qed.

Lemma disj_no_common r s a : disj r s -> matches r a -> matches s a -> False.
Proof. unfold disj, matches. lia. Qed.
Lemma overlap_common r s : wf r -> wf s -> ~ disj r s -> exists a, matches r a /\ matches s a.
Proof. unfold wf, disj, matches. intros. exists (Z.max (st r) (st s)). lia. Qed.

(* ------------------------------------------------------------------ sorting *)
Fixpoint sorted_st (l : list rule) : Prop :=
  match l with
  | [] => True
  | r :: rs => Forall (fun s => st r <= st s) rs /\ sorted_st rs
  end.

Lemma insert_perm x l : Permutation (insert_by lt_start x l) (x :: l).
Proof.
  induction l as [|y ys IH]; cbn [insert_by]; auto.
  destruct (lt_start y x); auto.
  etransitivity; [apply perm_skip, IH|apply perm_swap].
Qed.
Lemma sort_perm l : Permutation (sort_rules l) l.
Proof.
  unfold sort_rules, sort_by. induction l as [|x xs IH]; cbn [fold_right]; auto.
  etransitivity; [apply insert_perm|auto].
Qed.
Lemma sort_In l x : In x (sort_rules l) <-> In x l.
Proof. split; apply Permutation_in; [|symmetry]; apply sort_perm. Qed.

Lemma insert_sorted x l : sorted_st l -> sorted_st (insert_by lt_start x l).
Proof.
  induction l as [|y ys IH]; cbn [insert_by sorted_st]; [auto|].
  intros (H1 & H2). unfold lt_start at 1. destruct (st y <? st x) eqn:E; cbn [sorted_st].
  - split; [|auto].
    eapply Permutation_Forall; [symmetry; apply insert_perm|]. constructor; [lia|auto].
  - split; [|split; auto]. constructor; [lia|].
    rewrite Forall_forall in *. intros z Hz. specialize (H1 z Hz). lia.
Qed.
Lemma sort_sorted l : sorted_st (sort_rules l).
Proof.
  unfold sort_rules, sort_by. induction l as [|x xs IH]; cbn [fold_right sorted_st]; auto.
  apply insert_sorted, IH.
Qed.

(* ------------------------------------------------------------------ chains *)
Fixpoint chain (l : list rule) : Prop :=
  match l with
  | r1 :: ((r2 :: _) as tl) => en r1 <= st r2 /\ chain tl
  | _ => True
  end.
Fixpoint schain (l : list rule) : Prop :=
  match l with
  | r1 :: ((r2 :: _) as tl) => en r1 < st r2 /\ schain tl
  | _ => True
  end.

Lemma chain_cons2 r s l : chain (r :: s :: l) <-> en r <= st s /\ chain (s :: l).
Proof. reflexivity. Qed.
Lemma schain_cons2 r s l : schain (r :: s :: l) <-> en r < st s /\ schain (s :: l).
Proof. reflexivity. Qed.

Lemma adjacent_ok_chain l : adjacent_ok l = true <-> chain l.
Proof.
  induction l as [|r1 [|r2 tl] IH]; cbn [adjacent_ok chain]; try tauto.
  rewrite andb_true_iff, IH. cbn [chain]. intuition lia.
Qed.

Lemma schain_chain l : schain l -> chain l.
Proof.
  induction l as [|r1 [|r2 tl] IH]; cbn [schain chain]; auto. intros (H1 & H2). split; [lia|exact (IH H2)].
Qed.

Lemma chain_head_le r l : chain (r :: l) -> Forall wf l -> Forall (fun s => en r <= st s) l.
Proof.
  revert r. induction l as [|s l IH]; intros r Hc Hw; [constructor|].
  cbn [chain] in Hc. destruct Hc as (H1 & H2). inversion Hw as [|? ? Hs Hl]; subst.
  constructor; [auto|]. specialize (IH s H2 Hl).
  rewrite Forall_forall in *. intros x Hx. specialize (IH x Hx). unfold wf in Hs. lia.
Qed.

Lemma chain_tail r l : chain (r :: l) -> chain l.
Proof. destruct l; cbn [chain]; tauto. Qed.

Lemma chain_pdisj l : Forall wf l -> chain l -> pdisj l.
Proof.
  induction l as [|r l IH]; cbn; auto. intros Hw Hc. inversion Hw as [|? ? Hr Hl]; subst. split.
  - pose proof (chain_head_le r l Hc Hl) as H. rewrite Forall_forall in *.
    intros x Hx. left. auto.
  - apply IH; auto. eapply chain_tail; eauto.
Qed.

Lemma sorted_pdisj_chain l : Forall wf l -> sorted_st l -> pdisj l -> chain l.
Proof.
  induction l as [|r1 [|r2 tl] IH]; cbn [chain]; auto.
  intros Hw Hs Hd. inversion Hw as [|? ? Hw1 Hw']; subst. inversion Hw' as [|? ? Hw2 _]; subst.
  destruct Hs as (Hs1 & Hs2). destruct Hd as (Hd1 & Hd2).
  inversion Hs1 as [|? ? Hle _]; subst. inversion Hd1 as [|? ? Hdj _]; subst.
  split; [|apply IH; auto]. unfold wf, disj in *. lia.
Qed.

(* the overlap check decides pairwise disjointness of non-empty ranges *)
Theorem check_no_overlap_iff l : Forall wf l -> (check_no_overlap l = true <-> pdisj l).
Proof.
  intros Hw. unfold check_no_overlap. rewrite adjacent_ok_chain.
  assert (Hws : Forall wf (sort_rules l))
    by (eapply Permutation_Forall; [symmetry; apply sort_perm|exact Hw]).
  split; intros H.
  - apply (pairwise_perm disj disj_sym (sort_rules l) l (sort_perm l)). apply chain_pdisj; auto.
  - apply sorted_pdisj_chain; auto using sort_sorted.
    apply (pairwise_perm disj disj_sym l); [symmetry; apply sort_perm|exact H].
Qed.

Lemma rule_eq_dec (r s : rule) : {r = s} + {r <> s}.
Proof. decide equality; apply Z.eq_dec. Qed.

(* disjoint tables decode every address to at most one rule *)
Lemma pdisj_unique l a r s :
  pdisj l -> In r l -> In s l -> matches r a -> matches s a -> r = s.
Proof.
  intros Hd Hr Hs Hmr Hms.
  destruct (rule_eq_dec r s) as [E|E]; auto.
  exfalso. apply (disj_no_common r s a); auto. apply (pairwise_In disj disj_sym l); auto.
Qed.

(* ------------------------------------------------------------------ trim *)
Lemma decodes_cons r l a p :
  decodes (r :: l) a p <-> (matches r a /\ dest r = p) \/ decodes l a p.
Proof.
  unfold decodes; cbn [In]; split.
  - intros (x & [<-|Hin] & Hm & Hp); [left; auto|right; eauto].
  - intros [[Hm Hp]|(x & Hin & Hm & Hp)]; [exists r; auto|exists x; auto].
Qed.

Lemma decodes_app l1 l2 a p : decodes (l1 ++ l2) a p <-> decodes l1 a p \/ decodes l2 a p.
Proof.
  unfold decodes. split.
  - intros (x & Hin & H). apply in_app_or in Hin. destruct Hin; [left|right]; eauto.
  - intros [(x & Hin & H)|(x & Hin & H)]; exists x; split; auto using in_or_app.
Qed.

Lemma decodes_flat_map {K} (f : K -> list rule) ds a p :
  decodes (flat_map f ds) a p <-> exists d, In d ds /\ decodes (f d) a p.
Proof.
  induction ds as [|d ds IH]; cbn [flat_map].
  - split; [intros (x & [] & _)|intros (d & [] & _)].
  - rewrite decodes_app, IH. split.
    + intros [H|(d' & Hd' & H)]; [exists d|exists d']; cbn; auto.
    + intros (d' & [<-|Hd'] & H); [left|right]; eauto.
Qed.

Lemma merge_from_decodes cur l a p :
  wf cur -> Forall wf l -> Forall (fun r => dest r = dest cur) l ->
  (decodes (merge_from cur l) a p <-> decodes (cur :: l) a p).
Proof.
  revert cur. induction l as [|x xs IH]; intros cur Hc Hl Hd; cbn [merge_from].
  - tauto.
  - inversion Hl as [|? ? Hx Hxs]; subst. inversion Hd as [|? ? Hdx Hdxs]; subst.
    destruct (Z.eqb_spec (en cur) (st x)) as [E|E].
    + set (m := {| dest := dest cur; st := st cur; en := en x; sz := en x - st cur |}).
      assert (W : wf m) by (unfold wf in *; cbn; lia).
      rewrite (IH m W Hxs) by (eapply Forall_impl; [|exact Hdxs]; cbn; intros; congruence).
      rewrite !decodes_cons. unfold matches, wf in *; cbn. intuition lia.
    + assert (Hd' : Forall (fun r => dest r = dest x) xs)
        by (eapply Forall_impl; [|exact Hdxs]; cbn; intros; congruence).
      rewrite decodes_cons, (IH x Hx Hxs Hd'), !decodes_cons. tauto.
Qed.

Lemma merge_from_head cur l : exists h tl, merge_from cur l = h :: tl /\ st h = st cur.
Proof.
  revert cur. induction l as [|x xs IH]; intros cur; cbn [merge_from].
  - exists cur, []. auto.
  - destruct (en cur =? st x).
    + destruct (IH {| dest := dest cur; st := st cur; en := en x; sz := en x - st cur |})
        as (h & tl & E1 & E2). exists h, tl. split; [exact E1|exact E2].
    + eexists _, _. split; reflexivity.
Qed.

Lemma merge_from_Forall (P : rule -> Prop) cur l :
  (forall c x, P c -> P x -> en c = st x ->
               P {| dest := dest c; st := st c; en := en x; sz := en x - st c |}) ->
  P cur -> Forall P l -> Forall P (merge_from cur l).
Proof.
  intros Hm. revert cur. induction l as [|x xs IH]; intros cur Hc Hl; cbn [merge_from].
  - constructor; auto.
  - inversion Hl as [|? ? Hx Hxs]; subst. destruct (Z.eqb_spec (en cur) (st x)).
    + apply IH; auto.
    + constructor; auto.
Qed.

Lemma merge_from_schain cur l :
  Forall wf (cur :: l) -> chain (cur :: l) -> schain (merge_from cur l).
Proof.
  revert cur. induction l as [|x xs IH]; intros cur Hw Hc; cbn [merge_from]; [cbn; auto|].
  inversion Hw as [|? ? Hwc Hw']; subst. inversion Hw' as [|? ? Hwx Hwxs]; subst.
  cbn [chain] in Hc. destruct Hc as (Hle & Hc).
  destruct (Z.eqb_spec (en cur) (st x)) as [E|E].
  - apply IH.
    + constructor; [unfold wf in *; cbn; lia|auto].
    + destruct xs as [|y ys]; cbn [chain] in *; cbn; auto.
  - destruct (merge_from_head x xs) as (h & tl & E1 & E2).
    specialize (IH x Hw' Hc). rewrite E1 in *. cbn [schain]. split; [lia|exact IH].
Qed.

Lemma schain_no_touch l : Forall wf l -> schain l -> no_touch l.
Proof.
  induction l as [|r l IH]; cbn [no_touch pairwise]; auto.
  intros Hw Hc. inversion Hw as [|? ? Hr Hl]; subst. split.
  - assert (H : Forall (fun s => en r < st s) l).
    { destruct l as [|s l']; [constructor|]. destruct (proj1 (schain_cons2 _ _ _) Hc) as (H1 & H2).
      constructor; [auto|]. pose proof (chain_head_le s l' (schain_chain _ H2)) as H.
      inversion Hl as [|? ? Hs Hl']; subst. specialize (H Hl').
      rewrite Forall_forall in *. intros x Hx. specialize (H x Hx). unfold wf in *. lia. }
    rewrite Forall_forall in *. intros x Hx. specialize (H x Hx). specialize (Hl x Hx).
    unfold ntouch, wf in *. lia.
  - apply IH; auto. destruct l as [|s l']; [cbn; auto|]. exact (proj2 (proj1 (schain_cons2 _ _ _) Hc)).
Qed.

(* destinations *)
Lemma dests_In l d : In d (dests l) <-> exists r, In r l /\ dest r = d.
Proof.
  induction l as [|x xs IH]; cbn [dests In].
  - split; [intros []|intros (r & [] & _)].
  - rewrite filter_In, IH. split.
    + intros [<-|((r & Hr & E) & _)]; [exists x; auto|exists r; auto].
    + intros (r & [<-|Hr] & <-); [auto|].
      destruct (Z.eq_dec (dest r) (dest x)) as [E|E]; [left; auto|right].
      split; [eauto|]. lia.
Qed.
Lemma dests_NoDup l : NoDup (dests l).
Proof.
  induction l as [|x xs IH]; cbn [dests]; constructor.
  - rewrite filter_In. intros (_ & H). lia.
  - apply NoDup_filter, IH.
Qed.

Lemma group_In l d r : In r (group l d) <-> In r l /\ dest r = d.
Proof. unfold group. rewrite filter_In. intuition lia. Qed.

Lemma decodes_groups l a p :
  decodes l a p <-> exists d, In d (dests l) /\ decodes (group l d) a p.
Proof.
  split.
  - intros (r & Hr & Hm & Hp). exists (dest r). split; [apply dests_In; eauto|].
    exists r. rewrite group_In. auto.
  - intros (d & _ & r & Hr & Hm & Hp). apply group_In in Hr. exists r. tauto.
Qed.

(* one group after sort + merge *)
Section Group.
  Variable l : list rule.
  Hypothesis Hwf : Forall wf l.
  Hypothesis Hdj : pdisj l.
  Variable d : Z.
  Let g := sort_rules (group l d).
  Let out := merge g.

  Lemma g_wf : Forall wf g.
  Proof.
    apply Forall_forall. intros r Hr. apply sort_In, group_In in Hr.
    rewrite Forall_forall in Hwf. apply Hwf; tauto.
  Qed.
  Lemma g_dest : Forall (fun r => dest r = d) g.
  Proof. apply Forall_forall. intros r Hr. apply sort_In, group_In in Hr. tauto. Qed.
  Lemma g_chain : chain g.
  Proof.
    apply sorted_pdisj_chain; [apply g_wf|apply sort_sorted|].
    apply (pairwise_perm disj disj_sym (group l d)); [symmetry; apply sort_perm|].
    apply pairwise_filter, Hdj.
  Qed.

  Lemma out_decodes a p : decodes out a p <-> decodes (group l d) a p.
  Proof.
    unfold out, merge. pose proof g_wf as Hw. pose proof g_dest as Hd.
    assert (Hg : forall a p, decodes g a p <-> decodes (group l d) a p).
    { intros a' p'. unfold decodes. split; intros (r & Hr & H); exists r; (split; [|exact H]).
      - apply (proj1 (sort_In _ _)); exact Hr.
      - apply (proj2 (sort_In _ _)); exact Hr. }
    rewrite <- Hg. destruct g as [|x xs]; [tauto|].
    inversion Hw; subst. inversion Hd; subst.
    apply merge_from_decodes; auto.
  Qed.

  Lemma out_schain : schain out.
  Proof.
    unfold out, merge. pose proof g_wf as Hw. pose proof g_chain as Hc.
    destruct g as [|x xs]; [cbn; auto|]. apply merge_from_schain; auto.
  Qed.

  Lemma out_Forall (P : rule -> Prop) :
    (forall c x, P c -> P x -> en c = st x ->
                 P {| dest := dest c; st := st c; en := en x; sz := en x - st c |}) ->
    Forall P (group l d) -> Forall P out.
  Proof.
    intros Hm HP. unfold out, merge.
    assert (Hg : Forall P g)
      by (eapply Permutation_Forall; [symmetry; apply sort_perm|exact HP]).
    destruct g as [|x xs]; [constructor|]. inversion Hg; subst. apply merge_from_Forall; auto.
  Qed.

  Lemma out_wf : Forall wf out.
  Proof.
    apply out_Forall.
    - intros c x Hc Hx E. unfold wf in *; cbn; lia.
    - apply Forall_forall. intros r Hr. apply group_In in Hr. rewrite Forall_forall in Hwf.
      apply Hwf; tauto.
  Qed.
  Lemma out_dest : Forall (fun r => dest r = d) out.
  Proof.
    apply out_Forall.
    - intros c x Hc Hx E. cbn; auto.
    - apply Forall_forall. intros r Hr. apply group_In in Hr. tauto.
  Qed.
End Group.

Section Trim.
  Variable l : list rule.
  Hypothesis Hwf : Forall wf l.
  Hypothesis Hdj : pdisj l.

  Lemma trim_rules_decodes a p : decodes (trim_rules l) a p <-> decodes l a p.
  Proof.
    unfold trim_rules. rewrite decodes_flat_map, decodes_groups.
    split; intros (d & Hd & H); exists d; split; auto; [apply (out_decodes l Hwf) in H|
      apply (out_decodes l Hwf)]; auto.
  Qed.

  Lemma trim_rules_wf : Forall wf (trim_rules l).
  Proof.
    apply Forall_forall. intros r Hr. apply in_flat_map in Hr. destruct Hr as (d & _ & Hr).
    pose proof (out_wf l Hwf d) as H. rewrite Forall_forall in H. auto.
  Qed.

  Lemma trim_rules_sizes : Forall size_ok l -> Forall size_ok (trim_rules l).
  Proof.
    intros Hs. apply Forall_forall. intros r Hr. apply in_flat_map in Hr. destruct Hr as (d & _ & Hr).
    assert (H : Forall size_ok (merge (sort_rules (group l d)))).
    { apply out_Forall.
      - intros c x _ _ _. unfold size_ok; cbn; lia.
      - apply Forall_forall. intros x Hx. apply group_In in Hx. rewrite Forall_forall in Hs.
        apply Hs; tauto. }
    rewrite Forall_forall in H. auto.
  Qed.

  Lemma trim_rules_pdisj : pdisj (trim_rules l).
  Proof.
    unfold trim_rules. apply (pairwise_flat_map disj disj_sym); [apply dests_NoDup| |].
    - intros d _. apply chain_pdisj; [apply out_wf; auto|].
      apply schain_chain, out_schain; auto.
    - intros d d' x y _ _ Hne Hx Hy.
      destruct (Z_le_dec (en x) (st y)) as [|N1]; [left; auto|].
      destruct (Z_le_dec (en y) (st x)) as [|N2]; [right; auto|]. exfalso.
      pose proof (out_wf l Hwf d) as Wx. pose proof (out_wf l Hwf d') as Wy.
      pose proof (out_dest l d) as Dx. pose proof (out_dest l d') as Dy.
      rewrite Forall_forall in Wx, Wy, Dx, Dy.
      destruct (overlap_common x y (Wx x Hx) (Wy y Hy)) as (a & Hax & Hay);
        [unfold disj; lia|].
      assert (H1 : decodes (group l d) a d)
        by (apply (out_decodes l Hwf); exists x; auto).
      assert (H2 : decodes (group l d') a d')
        by (apply (out_decodes l Hwf); exists y; auto).
      destruct H1 as (o1 & Ho1 & Hm1 & E1). destruct H2 as (o2 & Ho2 & Hm2 & E2).
      apply group_In in Ho1, Ho2.
      assert (o1 <> o2) by (intros ->; lia).
      eapply (disj_no_common o1 o2 a); eauto.
      eapply (pairwise_In disj disj_sym l); tauto.
  Qed.

  Lemma trim_rules_no_touch : no_touch (trim_rules l).
  Proof.
    unfold trim_rules. apply (pairwise_flat_map ntouch ntouch_sym); [apply dests_NoDup| |].
    - intros d _. apply schain_no_touch; [apply out_wf; auto|apply out_schain; auto].
    - intros d d' x y _ _ Hne Hx Hy.
      pose proof (out_dest l d) as Dx. pose proof (out_dest l d') as Dy.
      rewrite Forall_forall in Dx, Dy. specialize (Dx x Hx). specialize (Dy y Hy).
      unfold ntouch. intros (E & _). lia.
  Qed.

  Theorem trim_correct :
    exists t', trim l = Ok t' /\
      (forall a p, decodes t' a p <-> decodes l a p) /\
      Forall wf t' /\ pdisj t' /\ no_touch t' /\
      (Forall size_ok l -> Forall size_ok t').
  Proof.
    exists (trim_rules l). split.
    - unfold trim, mk_map.
      rewrite (proj2 (check_no_overlap_iff _ trim_rules_wf) trim_rules_pdisj). reflexivity.
    - repeat split; try apply trim_rules_decodes; auto using trim_rules_wf, trim_rules_pdisj,
        trim_rules_no_touch, trim_rules_sizes.
  Qed.
End Trim.

(* ------------------------------------------------------------------ certified checker (C16) *)
Lemma rule_eqb_eq r s : rule_eqb r s = true -> r = s.
Proof.
  unfold rule_eqb. destruct r, s; cbn. rewrite !andb_true_iff, !Z.eqb_eq.
  intros (((-> & ->) & ->) & ->). reflexivity.
Qed.
Lemma rules_eqb_eq l m : rules_eqb l m = true -> l = m.
Proof.
  revert m. induction l as [|x xs IH]; intros [|y ys]; cbn; try discriminate; auto.
  rewrite andb_true_iff. intros (H1 & H2). f_equal; [apply rule_eqb_eq|apply IH]; auto.
Qed.
Lemma forallb_wfb l : forallb wfb l = true -> Forall wf l.
Proof. rewrite forallb_forall, Forall_forall. intros H x Hx. specialize (H x Hx). unfold wfb, wf in *. lia. Qed.
Lemma forallb_size_okb l : forallb size_okb l = true -> Forall size_ok l.
Proof.
  rewrite forallb_forall, Forall_forall. intros H x Hx. specialize (H x Hx).
  unfold size_okb, size_ok in *. lia.
Qed.
Lemma no_touchb_sound l : no_touchb l = true -> no_touch l.
Proof.
  induction l as [|r rs IH]; cbn [no_touchb no_touch pairwise]; auto.
  rewrite andb_true_iff, forallb_forall. intros (H1 & H2). split; auto.
  apply Forall_forall. intros s Hs. specialize (H1 s Hs). unfold touchb, ntouch in *. lia.
Qed.

Lemma canon_decodes l a p : Forall wf l -> pdisj l -> (decodes (canon_rules l) a p <-> decodes l a p).
Proof.
  intros Hw Hd. rewrite <- (trim_rules_decodes l Hw a p). unfold canon_rules, decodes.
  split; intros (r & Hr & H); exists r; (split; [|exact H]).
  - apply (proj1 (sort_In _ _)); exact Hr.
  - apply (proj2 (sort_In _ _)); exact Hr.
Qed.

Theorem chk_C16_sound t t' :
  Forall wf t -> pdisj t -> chk_C16 t t' = true ->
  (forall a p, decodes t' a p <-> decodes t a p) /\
  Forall wf t' /\ pdisj t' /\ no_touch t' /\ Forall size_ok t'.
Proof.
  intros Hw Hd. unfold chk_C16. rewrite !andb_true_iff.
  intros ((((H1 & H2) & H3) & H4) & H5).
  pose proof (forallb_wfb _ H1) as Hw'.
  pose proof (proj1 (check_no_overlap_iff t' Hw') H2) as Hd'.
  repeat split; auto using no_touchb_sound, forallb_size_okb.
  - intros H. apply (canon_decodes t a p Hw Hd). rewrite (rules_eqb_eq _ _ H5).
    apply (canon_decodes t' a p Hw' Hd'). exact H.
  - intros H. apply (canon_decodes t' a p Hw' Hd'). rewrite <- (rules_eqb_eq _ _ H5).
    apply (canon_decodes t a p Hw Hd). exact H.
Qed.
