(* XYSide.v -- decidable side condition of the XY bisimulation theorem (evaluated by the harness through the extracted
   binary on the grid the description denotes).  Definitions only. *)
From FV Require Import Base Graph Desc Build Netlist Compile Routing Emit Hw Side Check.

(* ---------------------------------------------------------------- grid attachments vs compiled ports (C04 bisimulation) *)
(* the attachments of an ideal grid G (grid, derived from the description) are exactly what the compiled routers
   carry on the ports that do not lead to a neighbouring router of the m x n array *)
Definition att_okb (c : compiled) (mm nn : Z) (G : grid) : bool :=
  forallb (fun r =>
    match cr_id r with
    | Some (IdXY i j _) =>
        forallb (fun k =>
          let '(dx, dy) := dir_delta k in
          if (k <? 4) && ((0 <=? i + dx) && (i + dx <? mm) && (0 <=? j + dy) && (j + dy <? nn)) then true
          else match nth_error (cr_out r) (Z.to_nat k) with
               | Some (Some l) =>
                   existsb (fun y => pair_eqb l (cr_name r, cn_name y) &&
                                     match att_at G i j k with Some t => str_eqb t (cn_name y) | None => false end) (c_nis c)
               | _ => match att_at G i j k with None => true | Some _ => false end
               end) [0; 1; 2; 3; 4]
    | _ => false
    end) (c_rts c).

(* interface x sits on port k of the router at (i, j) of the array rd: both link edges between them name direction k at
   the router end, and they are the links the interface was compiled with *)
Definition on_portb (g : graph) (rd : rt_desc) (mm nn : Z) (x : cni) (i j k : Z) : bool :=
  let nm := full_name (rt_name rd) [i; j] in
  (0 <=? i) && (i <? mm) && (0 <=? j) && (j <? nn) && (0 <=? k) && (k <=? 4) &&
  existsb (fun e => is_link e && str_eqb (e_src e) nm && str_eqb (e_dst e) (cn_name x) &&
                    match e_src_dir e with Some q => q =? k | None => false end) (g_edges g) &&
  existsb (fun e => is_link e && str_eqb (e_src e) (cn_name x) && str_eqb (e_dst e) nm &&
                    match e_dst_dir e with Some q => q =? k | None => false end) (g_edges g) &&
  pair_eqb (cn_mgr_link x) (cn_name x, nm) && pair_eqb (cn_sbr_link x) (nm, cn_name x).

(* the hypotheses of C04_hw_bisimulation for a description and the grid it denotes, in the order: one auto-connected
   m x n array, att_okb, every interface sits on the port the grid says *)
Definition xy_conditions (d : desc) (G : grid) : res (list bool) :=
  do g <- build d; do c <- compile d g;
  match d_rts d with
  | [rd] =>
      Ok [match d_algo d with XY => true | _ => false end;
          match rt_array rd, rt_tree rd with
          | Some [m; n], None => (m =? gr_m G) && (n =? gr_n G) && rt_auto rd
          | _, _ => false
          end;
          att_okb c (gr_m G) (gr_n G) G;
          forallb (fun x => match att_of G (cn_name x) with
                            | Some ((i, j), k) => on_portb g rd (gr_m G) (gr_n G) x i j k
                            | None => false
                            end) (c_nis c)]
  | _ => Ok [false]
  end.
