(* Extraction: ExtrOcamlBasic only (bool, option, unit, list, prod, sumbool, sumor mapped to
   OCaml's; andb/orb/negb/fst/snd inlined).  Z, positive, nat, string, ascii stay inductive. *)
Require Extraction.
Require Import ExtrOcamlBasic.
From FV Require Import Main.
Extraction "../ocaml/fv.ml" run_line.
