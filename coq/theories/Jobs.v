(* Jobs.v — model of util/gen_jobs.py: get_xy_base_addr, get_hbm_base_addr, gen_mesh_traffic.
   Constants and the traffic-type list come from the regenerated gen/JobsFacts.v.  Definitions only.
   The `uniform` pattern's random.randint draws are an oracle argument (ox, oy) ranging over the
   documented closed intervals [0, NUM_X-1] x [0, NUM_Y-1] (re-drawn while equal to the local tile). *)
From FV Require Import Base.
From FVGen Require Import JobsFacts.

Definition xy_base (x y : Z) : Z := (x * NUM_Y + y) * MEM_SIZE.
Definition hbm_base (ch : Z) : Z := HBM_BASE_ADDR + ch * MEM_SIZE.

(* length of one access relative to the full wide length L *)
Inductive lenk := LFull | LHalf | LHalfDivY | LQuarter.
Definition len_of (k : lenk) (L : Z) : Z :=
  match k with
  | LFull => L
  | LHalf => L / 2
  | LHalfDivY => (L / 2) / NUM_Y
  | LQuarter => L / 4
  end.

(* clog2 of gen_jobs: (x - 1).bit_length() *)
Definition jobs_clog2 (x : Z) : Z := Z.log2_up x.

Fixpoint bit_reverse_loop (n : nat) (reverse straight : Z) : Z :=
  match n with
  | O => reverse
  | S k => let reverse := Z.shiftl reverse 1 in
           let straight := Z.shiftr straight 1 in
           bit_reverse_loop k (Z.lor reverse (Z.land straight 1)) straight
  end.

(* accesses of tile (x,y): (external address, is_read, length kind); second component: local address;
   third: does the tile zero its lengths (onehop on every tile but (0,0)) *)
Definition accesses (t : string) (x y : Z) (rd : bool) (ox oy : Z)
  : res (list (Z * (bool * lenk)) * (Z * bool)) :=
  let local := xy_base x y in
  let nd := NUM_X * NUM_Y in
  let src := x * NUM_Y + y in
  let single a := Ok ([(a, (rd, LFull))], (local, false)) in
  if str_eqb t "hbm" then single (hbm_base y)
  else if str_eqb t "uniform" then single (xy_base ox oy)
  else if str_eqb t "onehop" then
    if (x =? 0) && (y =? 0) then single (xy_base x (y + 1)) else Ok ([(0, (rd, LFull))], (0, true))
  else if str_eqb t "bit_complement" then single (xy_base (NUM_X - x - 1) (NUM_Y - y - 1))
  else if str_eqb t "bit_reverse" then
    let r := bit_reverse_loop (Z.to_nat (jobs_clog2 nd - 1)) (Z.land src 1) src in
    single (xy_base (r mod NUM_X) (r / NUM_X))
  else if str_eqb t "bit_rotation" then
    let e := if src mod 2 =? 0 then src / 2 else src / 2 + nd / 2 in
    single (xy_base (e mod NUM_X) (e / NUM_X))
  else if str_eqb t "neighbor" then single (xy_base ((x + 1) mod NUM_X) y)
  else if str_eqb t "shuffle" then
    let e := if src <? nd / 2 then src * 2 else src * 2 - nd + 1 in
    single (xy_base (e mod NUM_X) (e / NUM_X))
  else if str_eqb t "transpose" then
    if NUM_X =? NUM_Y then single (xy_base y x)
    else if NUM_X <? NUM_Y then
      if NUM_Y mod NUM_X =? 0
      then single (xy_base (y - (y / NUM_X) * NUM_X) (x + (y / NUM_X) * NUM_X)) else Err "assert"
    else if NUM_X mod NUM_Y =? 0
      then single (xy_base (y + (x / NUM_Y) * NUM_Y) (x - (x / NUM_Y) * NUM_Y)) else Err "assert"
  else if str_eqb t "tornado" then single (xy_base ((x + cdiv NUM_X 2 - 1) mod NUM_X) y)
  else if str_eqb t "hotspot_boundary" then single (hbm_base (NUM_Y / 2))
  else if str_eqb t "hotspot" then single (xy_base (NUM_X / 2) (NUM_Y / 2))
  else if str_eqb t "matmul" then
    Ok ([(hbm_base y, (true, LHalf))] ++
        map (fun i => (hbm_base ((y + i) mod NUM_Y), (true, LHalfDivY))) (map Z.of_nat (seq 0 (Z.to_nat NUM_Y))) ++
        [(hbm_base y, (false, LQuarter))], (local, false))
  else Err "Unknown traffic type".

(* one job: (length, src, dst) *)
Definition jobs (t : string) (x y : Z) (rd : bool) (ox oy L : Z) : res (list (Z * (Z * Z))) :=
  do a <- accesses t x y rd ox oy;
  let '(acc, (local, zeroed)) := a in
  Ok (map (fun e : Z * (bool * lenk) =>
             let '(ext, (is_rd, k)) := e in
             let len := if (zeroed : bool) then 0 else len_of k L in
             (len, if (is_rd : bool) then (ext, local) else (local, ext))) acc).

(* ---- wire format: (c19 type x y rd ox oy L) -> (ok ((len src dst)...)) | (err) *)
Definition handle_c19 (args : list sx) : res sx :=
  match args with
  | [A t; x; y; rd; ox; oy; l] =>
      do x <- sx_Z x; do y <- sx_Z y; do rd <- sx_bool rd; do ox <- sx_Z ox; do oy <- sx_Z oy; do l <- sx_Z l;
      match jobs t x y rd ox oy l with
      | Ok js => Ok (L [A "ok"; xL (fun j => L [xZ (fst j); xZ (fst (snd j)); xZ (snd (snd j))]) js])
      | Err _ => Ok (L [A "err"])
      end
  | _ => Err "c19: bad arity"
  end.
