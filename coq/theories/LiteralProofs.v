(* LiteralProofs.v — C12 on the model: address bounds of the emitted system address map against the
   address width, for every input tree the model accepts.  Every start bound is below 2^aw, so its
   literal always fits; every end bound is at most 2^aw, so the only end literal that does not hold its
   value in aw bits is an exclusive end bound equal to 2^aw exactly -- the known finding
   C12:address-literal:end=2^addr_width, which this theorem shows to be the only possible overflow. *)
From FV Require Import Base AddrRange AddrRangeProofs RouteMap Graph Desc Build Netlist Compile Routing Emit
     ModelBase BuildProofs ParseProofs ModelProofs.
From Coq Require Import ZifyBool.

Lemma find_ep_unique d e nm :
  NoDup (map ep_name (d_eps d)) -> In e (d_eps d) -> ep_name e = nm -> find_ep d nm = Some e.
Proof.
  unfold find_ep. induction (d_eps d) as [|x xs IH]; cbn; intros Hn Hin He; [destruct Hin|].
  inversion Hn as [|? ? Hx Hn']; subst.
  destruct (str_eqb (ep_name x) (ep_name e)) eqn:E.
  - apply String.eqb_eq in E. destruct Hin as [->|Hin]; [reflexivity|].
    exfalso. apply Hx. rewrite E. apply in_map. exact Hin.
  - destruct Hin as [->|Hin]; [rewrite (proj2 (String.eqb_eq _ _) eq_refl) in E; discriminate|]. apply IH; auto.
Qed.

Section Bounds.
  Variables (d : desc) (g : graph) (aw : Z).
  Hypothesis Hnd : NoDup (map ep_name (d_eps d)).
  Hypothesis Hfit : forall e rs, In e (d_eps d) -> In rs (ep_ranges e) ->
     exists r, range_of_spec rs = Ok r /\ r_end r <= 2 ^ aw /\
       (forall b, ep_array e <> None -> ep_sbr e <> None -> r_base r = Some b -> b + r_size r * ep_num e <= 2 ^ aw).
  Hypothesis Hni : ni_of_desc d g.

  Lemma compile_ni_bounds ni x :
    In ni (g_nodes g) -> n_type ni = NNi -> compile_ni d g ni = Ok x ->
    forall r, In r (cn_ranges x) -> r_start r < r_end r <= 2 ^ aw.
  Proof.
    intros Hin Ht Hc r Hr.
    pose proof (compile_ni_ranges _ _ _ _ Hc) as (Hwf & _). rewrite Forall_forall in Hwf.
    split; [apply (Hwf r Hr)|].
    destruct (Hni ni Hin Ht) as (e & He & Hname & Harr).
    unfold compile_ni in Hc. rewrite (find_ep_unique d e (n_desc ni) Hnd He Hname) in Hc.
    inv_bind Hc. inversion Hc; subst x; clear Hc. cbn [cn_ranges] in Hr.
    (* the ranges before re-indexing *)
    assert (H0 : forall r0, In r0 a1 -> exists rs, In rs (ep_ranges e) /\ range_of_spec rs = Ok r0).
    { intros r0 Hr0. destruct (mapM_In _ _ _ _ E1 Hr0) as (rs & Hrs & Hq). eauto. }
    assert (Hplain : In r a1 -> r_end r <= 2 ^ aw).
    { intros Hr1. destruct (H0 r Hr1) as (rs & Hrs & Hq). destruct (Hfit e rs He Hrs) as (r' & Hq' & Hb & _).
      rewrite Hq in Hq'. inversion Hq'; subst. exact Hb. }
    unfold arr_opts in Harr.
    destruct (ep_array e) as [arr|] eqn:Ea.
    - apply in_map_iff in Harr. destruct Harr as (idx & Hidx & Hbounds). apply ep_indices_bounds in Hbounds.
      rewrite <- Hidx in E2.
      destruct arr as [|m [|n [|? ?]]]; try discriminate;
        destruct idx as [|i [|j [|? ?]]]; try contradiction; try discriminate.
      + (* 1-D *)
        destruct (ep_is_sbr e) eqn:Es; [|inversion E2; subst; auto].
        destruct (mapM_In _ _ _ _ E2 Hr) as (r0 & Hr0 & Hs). destruct (H0 r0 Hr0) as (rs & Hrs & Hq).
        destruct (Hfit e rs He Hrs) as (r' & Hq' & _ & Hb). rewrite Hq in Hq'. inversion Hq'; subst r'.
        pose proof (range_of_spec_wf _ _ Hq) as (W1 & W2).
        unfold set_idx in Hs. destruct (r_base r0) as [b|] eqn:Eb; [|discriminate]. inversion Hs; subst r; cbn.
        assert (Hx : b + r_size r0 * ep_num e <= 2 ^ aw).
        { apply Hb; [rewrite Ea; discriminate| |reflexivity]. unfold ep_is_sbr in Es. destruct (ep_sbr e); [discriminate|discriminate]. }
        unfold ep_num in Hx. rewrite Ea in Hx. cbn iota in Hx.
        assert (r_size r0 * (i + 1) <= r_size r0 * m) by (apply Z.mul_le_mono_nonneg_l; lia). lia.
      + (* 2-D *)
        destruct (ep_is_sbr e) eqn:Es; [|inversion E2; subst; auto].
        destruct (mapM_In _ _ _ _ E2 Hr) as (r0 & Hr0 & Hs). destruct (H0 r0 Hr0) as (rs & Hrs & Hq).
        destruct (Hfit e rs He Hrs) as (r' & Hq' & _ & Hb). rewrite Hq in Hq'. inversion Hq'; subst r'.
        pose proof (range_of_spec_wf _ _ Hq) as (W1 & W2).
        unfold set_idx in Hs. destruct (r_base r0) as [b|] eqn:Eb; [|discriminate]. inversion Hs; subst r; cbn.
        assert (Hx : b + r_size r0 * ep_num e <= 2 ^ aw).
        { apply Hb; [rewrite Ea; discriminate| |reflexivity]. unfold ep_is_sbr in Es. destruct (ep_sbr e); discriminate. }
        unfold ep_num in Hx. rewrite Ea in Hx. cbn iota in Hx.
        assert (i * n + j + 1 <= m * n) by nia.
        assert (r_size r0 * (i * n + j + 1) <= r_size r0 * (m * n)) by (apply Z.mul_le_mono_nonneg_l; lia). lia.
    - inversion E2; subst. auto.
  Qed.
End Bounds.

(* the emitted address map, for every accepted input tree *)
Theorem sam_bounds_within_aw sp v n : run_yaml sp v = Ok n ->
  forall s, In s (n_sam n) -> sr_start s < sr_end s <= 2 ^ n_aw n.
Proof.
  intros H. unfold run_yaml in H. destruct (parse_desc v) as [d|] eqn:Hp; [|discriminate]. cbn [bind] in H.
  destruct (run_inv _ _ _ H) as (g & c & ri & Hb & Hc & Hr & He).
  destruct (parse_desc_ok _ _ Hp) as (A1 & _ & _ & A4 & _).
  destruct (emit_inv _ _ _ He) as (_ & axi & rts & _ & _ & ->). cbn [n_sam n_aw].
  destruct (compile_desc _ _ _ Hc) as (Hd & Hg). rewrite Hd.
  intros s Hs. apply in_map_iff in Hs. destruct Hs as ([dst [r nm]] & <- & Hin). cbn.
  destruct (gri_inv _ _ _ Hr) as (_ & _ & _ & _ & _ & Hsam & _). rewrite Hsam in Hin.
  destruct (gen_sam_inv _ _ _ Hin) as (x & Hx & _ & Hrx & _). cbn [fst snd] in Hrx.
  destruct (compile_inv _ _ _ Hc) as (dirs & nis & rts' & rids & Hn & _ & Hceq). subst c. cbn in Hx.
  destruct (mapM_In _ _ _ _ Hn Hx) as (ni & Hni & Hcn).
  unfold nodes_of_type in Hni. apply filter_In in Hni. destruct Hni as (Hni & Hty).
  assert (n_type ni = NNi) by (destruct (n_type ni); cbn in Hty; congruence).
  change (desc_aw d) with (aw_of d).
  eapply (compile_ni_bounds d g (aw_of d) A1 A4 (build_ni_of_desc d g Hb)); eauto.
Qed.

(* consequently the start literal always holds its value, and the end literal does unless end = 2^aw *)
Corollary sam_literals sp v n : run_yaml sp v = Ok n ->
  forall s, In s (n_sam n) -> sr_start s < 2 ^ n_aw n /\ (sr_end s < 2 ^ n_aw n \/ sr_end s = 2 ^ n_aw n).
Proof. intros H s Hs. pose proof (sam_bounds_within_aw sp v n H s Hs). lia. Qed.
