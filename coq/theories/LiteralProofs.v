(* LiteralProofs.v — C12 on the model: address bounds of the emitted system address map against the
   address width, for every input tree the model accepts.  Every start bound is below 2^aw, so its
   literal always fits; every end bound is at most 2^aw, so the only end literal that does not hold its
   value in aw bits is an exclusive end bound equal to 2^aw exactly -- the known finding
   C12:address-literal:end=2^addr_width, which this theorem shows to be the only possible overflow. *)
From FV Require Import Base AddrRange AddrRangeProofs RouteMap Graph Desc Build Netlist Compile Routing Emit
     ModelBase BuildProofs ParseProofs ModelProofs.
From Coq Require Import ZifyBool.

Lemma find_ep_unique d e nm :
  NoDup (map ep_name (d_eps d)) -> In e (d_eps d) -> ep_name e = nm -> find_ep d nm = Some e.
Proof.
  unfold find_ep. induction (d_eps d) as [|x xs IH]; cbn; intros Hn Hin He; [destruct Hin|].
  inversion Hn as [|? ? Hx Hn']; subst.
  destruct (str_eqb (ep_name x) (ep_name e)) eqn:E.
  - apply String.eqb_eq in E. destruct Hin as [->|Hin]; [reflexivity|].
    exfalso. apply Hx. rewrite E. apply in_map. exact Hin.
  - destruct Hin as [->|Hin]; [rewrite (proj2 (String.eqb_eq _ _) eq_refl) in E; discriminate|]. apply IH; auto.
Qed.

Section Bounds.
  Variables (d : desc) (g : graph) (aw : Z).
  Hypothesis Hnd : NoDup (map ep_name (d_eps d)).
  Hypothesis Hfit : forall e rs, In e (d_eps d) -> In rs (ep_ranges e) ->
     exists r, range_of_spec rs = Ok r /\ r_end r <= 2 ^ aw /\
       (forall b, ep_array e <> None -> ep_sbr e <> None -> r_base r = Some b -> b + r_size r * ep_num e <= 2 ^ aw).
  Hypothesis Hni : ni_of_desc d g.

  Lemma compile_ni_bounds ni x :
    In ni (g_nodes g) -> n_type ni = NNi -> compile_ni d g ni = Ok x ->
    forall r, In r (cn_ranges x) -> r_start r < r_end r <= 2 ^ aw.
  Proof.
    intros Hin Ht Hc r Hr.
    pose proof (compile_ni_ranges _ _ _ _ Hc) as (Hwf & _). rewrite Forall_forall in Hwf.
    split; [apply (Hwf r Hr)|].
    destruct (Hni ni Hin Ht) as (e & He & Hname & Harr).
    unfold compile_ni in Hc. rewrite (find_ep_unique d e (n_desc ni) Hnd He Hname) in Hc.
    inv_bind Hc. inversion Hc; subst x; clear Hc. cbn [cn_ranges] in Hr.
    (* the ranges before re-indexing *)
    assert (H0 : forall r0, In r0 a1 -> exists rs, In rs (ep_ranges e) /\ range_of_spec rs = Ok r0).
    { intros r0 Hr0. destruct (mapM_In _ _ _ _ E1 Hr0) as (rs & Hrs & Hq). eauto. }
    assert (Hplain : In r a1 -> r_end r <= 2 ^ aw).
    { intros Hr1. destruct (H0 r Hr1) as (rs & Hrs & Hq). destruct (Hfit e rs He Hrs) as (r' & Hq' & Hb & _).
      rewrite Hq in Hq'. inversion Hq'; subst. exact Hb. }
    unfold arr_opts in Harr.
    destruct (ep_array e) as [arr|] eqn:Ea.
    - apply in_map_iff in Harr. destruct Harr as (idx & Hidx & Hbounds). apply ep_indices_bounds in Hbounds.
      rewrite <- Hidx in E2.
      destruct arr as [|m [|n [|? ?]]]; try discriminate;
        destruct idx as [|i [|j [|? ?]]]; try contradiction; try discriminate.
      + (* 1-D *)
        destruct (ep_is_sbr e) eqn:Es; [|inversion E2; subst; auto].
        destruct (mapM_In _ _ _ _ E2 Hr) as (r0 & Hr0 & Hs). destruct (H0 r0 Hr0) as (rs & Hrs & Hq).
        destruct (Hfit e rs He Hrs) as (r' & Hq' & _ & Hb). rewrite Hq in Hq'. inversion Hq'; subst r'.
        pose proof (range_of_spec_wf _ _ Hq) as (W1 & W2).
        unfold set_idx in Hs. destruct (r_base r0) as [b|] eqn:Eb; [|discriminate]. inversion Hs; subst r; cbn.
        assert (Hx : b + r_size r0 * ep_num e <= 2 ^ aw).
        { apply Hb; [rewrite Ea; discriminate| |reflexivity]. unfold ep_is_sbr in Es. destruct (ep_sbr e); [discriminate|discriminate]. }
        unfold ep_num in Hx. rewrite Ea in Hx. cbn iota in Hx.
        assert (r_size r0 * (i + 1) <= r_size r0 * m) by (apply Z.mul_le_mono_nonneg_l; lia). lia.
      + (* 2-D *)
        destruct (ep_is_sbr e) eqn:Es; [|inversion E2; subst; auto].
        destruct (mapM_In _ _ _ _ E2 Hr) as (r0 & Hr0 & Hs). destruct (H0 r0 Hr0) as (rs & Hrs & Hq).
        destruct (Hfit e rs He Hrs) as (r' & Hq' & _ & Hb). rewrite Hq in Hq'. inversion Hq'; subst r'.
        pose proof (range_of_spec_wf _ _ Hq) as (W1 & W2).
        unfold set_idx in Hs. destruct (r_base r0) as [b|] eqn:Eb; [|discriminate]. inversion Hs; subst r; cbn.
        assert (Hx : b + r_size r0 * ep_num e <= 2 ^ aw).
        { apply Hb; [rewrite Ea; discriminate| |reflexivity]. unfold ep_is_sbr in Es. destruct (ep_sbr e); discriminate. }
        unfold ep_num in Hx. rewrite Ea in Hx. cbn iota in Hx.
        assert (i * n + j + 1 <= m * n) by nia.
        assert (r_size r0 * (i * n + j + 1) <= r_size r0 * (m * n)) by (apply Z.mul_le_mono_nonneg_l; lia). lia.
    - inversion E2; subst. auto.
  Qed.
End Bounds.

(* the emitted address map, for every accepted input tree *)
Theorem sam_bounds_within_aw sp v n : run_yaml sp v = Ok n ->
  forall s, In s (n_sam n) -> sr_start s < sr_end s <= 2 ^ n_aw n.
Proof.
  intros H. unfold run_yaml in H. destruct (parse_desc v) as [d|] eqn:Hp; [|discriminate]. cbn [bind] in H.
  destruct (run_inv _ _ _ H) as (g & c & ri & Hb & Hc & Hr & He).
  destruct (parse_desc_ok _ _ Hp) as (A1 & _ & _ & A4 & _).
  destruct (emit_inv _ _ _ He) as (_ & axi & rts & _ & _ & ->). cbn [n_sam n_aw].
  destruct (compile_desc _ _ _ Hc) as (Hd & Hg). rewrite Hd.
  intros s Hs. apply in_map_iff in Hs. destruct Hs as ([dst [r nm]] & <- & Hin). cbn.
  destruct (gri_inv _ _ _ Hr) as (_ & _ & _ & _ & _ & Hsam & _). rewrite Hsam in Hin.
  destruct (gen_sam_inv _ _ _ Hin) as (x & Hx & _ & Hrx & _). cbn [fst snd] in Hrx.
  destruct (compile_inv _ _ _ Hc) as (dirs & nis & rts' & rids & Hn & _ & Hceq). subst c. cbn in Hx.
  destruct (mapM_In _ _ _ _ Hn Hx) as (ni & Hni & Hcn).
  unfold nodes_of_type in Hni. apply filter_In in Hni. destruct Hni as (Hni & Hty).
  assert (n_type ni = NNi) by (destruct (n_type ni); cbn in Hty; congruence).
  change (desc_aw d) with (aw_of d).
  eapply (compile_ni_bounds d g (aw_of d) A1 A4 (build_ni_of_desc d g Hb)); eauto.
Qed.

(* consequently the start literal always holds its value, and the end literal does unless end = 2^aw *)
Corollary sam_literals sp v n : run_yaml sp v = Ok n ->
  forall s, In s (n_sam n) -> sr_start s < 2 ^ n_aw n /\ (sr_end s < 2 ^ n_aw n \/ sr_end s = 2 ^ n_aw n).
Proof. intros H s Hs. pose proof (sam_bounds_within_aw sp v n H s Hs). lia. Qed.

(* ------------------------------------------------------------------ bounds of the router tables against the identifier width *)
From FV Require Import IdProofs RouteMapProofs.

(* every rule of every emitted ID table starts below 2^id_bits and ends at most at 2^id_bits: the only rule end
   that does not fit the identifier field is end = 2^id_bits exactly (N = 2^k endpoints) -- the known finding
   C12:field-overflow:table-end=2^id_bits, shown to be the only possible overflow of a table bound *)
Theorem table_bounds_within_id_bits sp d g c ri :
  build d = Ok g -> compile d g = Ok c -> d_algo d = ID -> gen_routing_info sp c = Ok ri ->
  forall e ru, In e (ri_tables ri) -> In ru (snd e) -> 0 <= st ru < en ru /\ en ru <= 2 ^ ri_id_bits ri.
Proof.
  intros Hb Hc Ha Hri e ru He Hru.
  assert (Hcd : c_desc c = d) by apply (compile_desc d g c Hc).
  destruct (gri_inv _ _ _ Hri) as (_ & _ & _ & Htab & _). specialize (Htab ltac:(rewrite Hcd; exact Ha)).
  destruct (mapM_In _ _ _ _ Htab He) as (r & Hr & Hq). inv_bind Hq. inversion Hq; subst e; clear Hq. cbn [snd] in Hru.
  destruct (id_bits_cover sp c ri Hri) as (HN & _ & Hcov).
  unfold gen_table in E. inv_bind E.
  (* the untrimmed rules: one per interface, [id, id+1) with 0 <= id < N *)
  assert (Hrules : forall x, In x a0 -> 0 <= st x /\ en x = st x + 1 /\ st x < Z.of_nat (length (c_nis c))).
  { intros x Hx. destruct (mapM_In _ _ _ _ E0 Hx) as (t & Ht & Hqt). cbv beta in Hqt.
    destruct (sp (c_graph c) (cr_name r) (cn_name t)) as [[|? [|? ?]]|]; try discriminate.
    destruct (out_index r _); [|discriminate]. inv_bind Hqt. inversion Hqt; subst x; clear Hqt. cbn.
    assert (Hxy : d_algo d <> XY) by (rewrite Ha; discriminate).
    rewrite (ids_are_uids d g c Hc Hxy t Ht) in E2. cbn in E2. inversion E2; subst a2.
    pose proof (uids_range d g c Hb Hc t Ht). lia. }
  unfold mk_map in E1. destruct (check_no_overlap a0) eqn:Eo; [|discriminate]. inversion E1; subst a1; clear E1.
  assert (Hwf : Forall wf a0) by (apply Forall_forall; intros x Hx; destruct (Hrules x Hx) as (A & B & _); unfold wf; lia).
  destruct (trim_correct a0 Hwf (proj1 (check_no_overlap_iff a0 Hwf) Eo)) as (t' & Ht' & Hdec & Hwf' & _).
  rewrite Ht' in E. inversion E; subst a; clear E.
  rewrite Forall_forall in Hwf'. pose proof (Hwf' ru Hru) as Hw. unfold wf in Hw.
  (* both ends of the trimmed rule decode in the original table, hence lie in [0, N) *)
  assert (Hin : forall z, st ru <= z < en ru -> 0 <= z < Z.of_nat (length (c_nis c))).
  { intros z Hz. assert (Hd : decodes t' z (dest ru)) by (exists ru; unfold matches; auto).
    apply Hdec in Hd. destruct Hd as (x & Hx & Hm & _). destruct (Hrules x Hx) as (A & B & C). unfold matches in Hm. lia. }
  pose proof (Hin (st ru) ltac:(lia)). pose proof (Hin (en ru - 1) ltac:(lia)).
  rewrite HN in Hcov. lia.
Qed.

(* the same on the emitted netlist: the rules of every router's address map fit the identifier field *)
Theorem netlist_table_bounds sp v n : run_yaml sp v = Ok n ->
  forall r nm n1 n2 iw rules, In r (n_rts n) -> r_map r = Some (nm, (n1, (n2, (iw, rules)))) ->
  exists b, n_id_bits n = Some b /\ forall ru, In ru rules -> 0 <= st ru < en ru /\ en ru <= 2 ^ b.
Proof.
  intros H. unfold run_yaml in H. destruct (parse_desc v) as [d|] eqn:Hp; [|discriminate]. cbn [bind] in H.
  destruct (run_inv _ _ _ H) as (g & c & ri & Hb & Hc & Hr & He).
  destruct (emit_inv _ _ _ He) as (_ & axi & rts & _ & Hrts & ->). cbn [n_rts n_id_bits].
  destruct (compile_desc _ _ _ Hc) as (Hd & Hg). rewrite Hd in *.
  intros r nm n1 n2 iw rules Hin Hm.
  destruct (mapM_In _ _ _ _ Hrts Hin) as (cr & Hcr & Hq).
  destruct (emit_rt_counts _ _ _ _ Hq) as (_ & _ & _ & _ & _ & _ & _ & _ & _ & Hmap).
  rewrite Hmap in Hm. destruct (d_algo d) eqn:Ha; try discriminate.
  destruct (find _ (ri_tables ri)) as [[k rl]|] eqn:Hf; [|discriminate].
  inversion Hm; subst nm n1 n2 iw rules; clear Hm.
  exists (ri_id_bits ri). split; [reflexivity|]. intros ru Hru.
  apply find_some in Hf. destruct Hf as (Hf & _).
  exact (table_bounds_within_id_bits sp d g c ri Hb Hc Ha Hr (k, rl) ru Hf Hru).
Qed.
