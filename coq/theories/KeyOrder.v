(* KeyOrder.v — C15, "regardless of key order inside YAML mappings", as a theorem about the model's schema layer.
   Two YAML trees are SIMILAR (ysim) when they agree up to what a lookup by key can see: equal scalars, lists similar
   element by element, mappings that answer every key with similar values (or both with nothing).  Every reordering of
   the keys of a mapping with distinct keys, at any depth, gives a similar tree (ysim_perm).  The schema layer
   accepts both of two similar trees or neither and builds the SAME description from them (parse_desc_sim); hence the
   whole model run -- graph, identities, tables, address map, netlist -- is the same (run_yaml_sim).  Only the text of
   an error message may differ (an unknown-field error names the first unknown key it meets). *)
From FV Require Import Base AddrRange Desc Graph Build Netlist Compile Routing Emit.
From Coq Require Import Permutation.

Local Lemma str_eqb_eq a b : str_eqb a b = true <-> a = b.
Proof. unfold str_eqb. apply String.eqb_eq. Qed.

Inductive orel {A} (R : A -> A -> Prop) : option A -> option A -> Prop :=
| orel_none : orel R None None
| orel_some x y : R x y -> orel R (Some x) (Some y).

Inductive ysim : yv -> yv -> Prop :=
| ys_null : ysim YNull YNull
| ys_bool b : ysim (YBool b) (YBool b)
| ys_int z : ysim (YInt z) (YInt z)
| ys_str s : ysim (YStr s) (YStr s)
| ys_list l l' : Forall2 ysim l l' -> ysim (YList l) (YList l')
| ys_map m m' : (forall k, orel ysim (yget k m) (yget k m')) -> ysim (YMap m) (YMap m').

(* same outcome: both accepted with the same value, or both rejected *)
Definition res_sim {T} (a b : res T) : Prop :=
  match a, b with
  | Ok x, Ok y => x = y
  | Err _, Err _ => True
  | _, _ => False
  end.

Lemma res_sim_refl {T} (a : res T) : res_sim a a.
Proof. destruct a; cbn; auto. Qed.
Lemma res_sim_eq {T} (a b : res T) : a = b -> res_sim a b.
Proof. intros ->. apply res_sim_refl. Qed.

Lemma bind_sim {A B} (a b : res A) (f g : A -> res B) :
  res_sim a b -> (forall x, res_sim (f x) (g x)) -> res_sim (bind a f) (bind b g).
Proof. destruct a as [x|e], b as [y|e']; cbn; try tauto. intros ->. auto. Qed.

Lemma mapM_sim {A B} (R : A -> A -> Prop) (f : A -> res B) l l' :
  Forall2 R l l' -> (forall x y, R x y -> res_sim (f x) (f y)) -> res_sim (mapM f l) (mapM f l').
Proof.
  intros H Hf. induction H as [|x y l l' Hxy _ IH]; cbn [mapM]; [reflexivity|].
  apply bind_sim; [apply Hf; exact Hxy|]. intros b. apply bind_sim; [exact IH|]. intros bs. reflexivity.
Qed.

(* ------------------------------------------------------------------ reflexivity and key permutations *)
Lemma ysim_refl : forall v, ysim v v.
Proof.
  fix IH 1. intros [| b | z | s | l | m]; try constructor.
  - revert l. fix IHl 1. intros [|x l]; constructor; [apply IH|apply IHl].
  - intros k. revert m. fix IHm 1. intros [|[k' x] m]; cbn [yget]; [constructor|].
    destruct (str_eqb k k'); [constructor; apply IH|apply IHm].
Qed.

Lemma yget_in k m v : yget k m = Some v -> In (k, v) m.
Proof.
  induction m as [|[k' x] m IH]; cbn [yget]; [discriminate|].
  destruct (str_eqb k k') eqn:E; [|intros H; right; auto].
  apply str_eqb_eq in E. subst k'. intros H. inversion H. left. reflexivity.
Qed.
Lemma yget_nodup k m v : NoDup (map fst m) -> In (k, v) m -> yget k m = Some v.
Proof.
  induction m as [|[k' x] m IH]; cbn [yget map fst]; [intros _ []|].
  intros Hnd [Hin|Hin]; inversion Hnd as [|? ? Hni Hnd']; subst.
  - inversion Hin; subst. rewrite (proj2 (str_eqb_eq _ _) eq_refl). reflexivity.
  - destruct (str_eqb k k') eqn:E; [|auto].
    apply str_eqb_eq in E. subst k'. exfalso. apply Hni. apply in_map_iff. exists (k, v). auto.
Qed.
Lemma yget_none k m : yget k m = None <-> ~ In k (map fst m).
Proof.
  induction m as [|[k' x] m IH]; cbn [yget map fst In]; [tauto|].
  destruct (str_eqb k k') eqn:E.
  - apply str_eqb_eq in E. subst k'. split; [discriminate|]. intros H. exfalso. apply H. left. reflexivity.
  - rewrite IH. split; [|tauto]. intros H [Hk|Hk]; [|tauto]. subst k'. rewrite (proj2 (str_eqb_eq _ _) eq_refl) in E. discriminate.
Qed.

(* lookups do not see the order of distinct keys *)
Lemma yget_perm k m m' : NoDup (map fst m) -> Permutation m m' -> yget k m = yget k m'.
Proof.
  intros Hnd Hp. assert (Hnd' : NoDup (map fst m')) by (eapply Permutation_NoDup; [apply Permutation_map; exact Hp|exact Hnd]).
  destruct (yget k m) as [v|] eqn:E.
  - symmetry. apply yget_nodup; [exact Hnd'|]. eapply Permutation_in; [exact Hp|]. apply yget_in. exact E.
  - symmetry. apply yget_none. apply yget_none in E. intros Hin. apply E.
    eapply Permutation_in; [apply Permutation_sym; apply Permutation_map; exact Hp|exact Hin].
Qed.
(* ... nor a replacement of the values by similar ones, key by key *)
Lemma yget_pointwise k m m' :
  Forall2 (fun a b => fst a = fst b /\ ysim (snd a) (snd b)) m m' -> orel ysim (yget k m) (yget k m').
Proof.
  induction 1 as [|[k1 x] [k2 y] m m' (Hk & Hv) _ IH]; cbn [yget]; [constructor|].
  cbn [fst snd] in Hk, Hv. subst k2. destruct (str_eqb k k1); [constructor; exact Hv|exact IH].
Qed.

(* a mapping with distinct keys, its entries reordered and their values replaced by similar ones *)
Theorem ysim_perm m m1 m' :
  NoDup (map fst m) -> Permutation m m1 -> Forall2 (fun a b => fst a = fst b /\ ysim (snd a) (snd b)) m1 m' ->
  ysim (YMap m) (YMap m').
Proof. intros Hnd Hp Hf. constructor. intros k. rewrite (yget_perm k m m1 Hnd Hp). apply yget_pointwise. exact Hf. Qed.

(* ------------------------------------------------------------------ the schema layer on similar trees *)
Lemma forbid_extra_ok what allowed m :
  forbid_extra what allowed m = Ok tt <-> (forall k, In k (map fst m) -> existsb (str_eqb k) allowed = true).
Proof.
  unfold forbid_extra. induction m as [|[k x] m IH]; cbn [filter map fst].
  - split; [intros _ k []|reflexivity].
  - cbn [fst]. destruct (existsb (str_eqb k) allowed) eqn:E; cbn [negb].
    + rewrite IH. split; [intros H k' [<-|Hin]; auto|intros H k' Hin; apply H; right; exact Hin].
    + split; [discriminate|]. intros H. specialize (H k (or_introl eq_refl)). congruence.
Qed.
Lemma forbid_extra_sim what allowed m m' :
  (forall k, orel ysim (yget k m) (yget k m')) -> res_sim (forbid_extra what allowed m) (forbid_extra what allowed m').
Proof.
  intros H.
  assert (Hkeys : forall k, In k (map fst m) <-> In k (map fst m')).
  { intros k. specialize (H k). destruct (yget k m) eqn:E1, (yget k m') eqn:E2; inversion H; subst.
    - split; intros _.
      + destruct (in_dec string_dec k (map fst m')) as [|Hn]; [assumption|]. apply yget_none in Hn. congruence.
      + destruct (in_dec string_dec k (map fst m)) as [|Hn]; [assumption|]. apply yget_none in Hn. congruence.
    - apply yget_none in E1, E2. tauto. }
  destruct (forbid_extra what allowed m) as [[]|e] eqn:F1, (forbid_extra what allowed m') as [[]|e'] eqn:F2; cbn; auto.
  - pose proof (proj1 (forbid_extra_ok what allowed m) F1) as G1. assert (forbid_extra what allowed m' = Ok tt) by (apply (proj2 (forbid_extra_ok what allowed m')); intros k Hk; apply G1, Hkeys, Hk). congruence.
  - pose proof (proj1 (forbid_extra_ok what allowed m') F2) as G2. assert (forbid_extra what allowed m = Ok tt) by (apply (proj2 (forbid_extra_ok what allowed m)); intros k Hk; apply G2, Hkeys, Hk). congruence.
Qed.

Lemma ymap_sim what v v' : ysim v v' ->
  match ymap what v, ymap what v' with
  | Ok m, Ok m' => forall k, orel ysim (yget k m) (yget k m')
  | Err _, Err _ => True
  | _, _ => False
  end.
Proof. intros H. inversion H; subst; cbn; auto. Qed.
Lemma ylist_sim what v v' : ysim v v' ->
  match ylist what v, ylist what v' with
  | Ok l, Ok l' => Forall2 ysim l l'
  | Err _, Err _ => True
  | _, _ => False
  end.
Proof. intros H. inversion H; subst; cbn; auto. Qed.

(* parsers that look at a value only through scalars, lists of scalars and lists of pairs *)
Definition flat (T : Type) (f : yv -> res T) : Prop := forall v v', ysim v v' -> res_sim (f v) (f v').
Lemma flat_int : flat _ y_int.
Proof. intros v v' H. inversion H; subst; cbn; auto. Qed.
Lemma flat_str : flat _ y_str.
Proof. intros v v' H. inversion H; subst; cbn; auto. Qed.
Lemma flat_bool : flat _ y_bool.
Proof. intros v v' H. inversion H; subst; apply res_sim_refl || (cbn; auto). Qed.
Lemma flat_dir : flat _ y_dir.
Proof. intros v v' H. inversion H; subst; apply res_sim_refl || (cbn; auto). Qed.
Lemma flat_list T (f : yv -> res T) what : flat _ f -> flat _ (fun v => do l <- ylist what v; mapM f l).
Proof.
  intros Hf v v' H. pose proof (ylist_sim what v v' H) as Hl.
  destruct (ylist what v) as [l|], (ylist what v') as [l'|]; cbn [bind]; try tauto; try exact I.
  apply (mapM_sim ysim); [exact Hl|exact Hf].
Qed.
Lemma flat_strlist : flat _ y_strlist.
Proof. exact (flat_list _ y_str "list" flat_str). Qed.
Lemma flat_int_or_list : flat _ y_int_or_list.
Proof.
  intros v v' H. inversion H; subst; cbn; auto. apply (mapM_sim ysim); [assumption|exact flat_int].
Qed.
Lemma flat_pair : flat _ y_pair.
Proof.
  intros v v' H. inversion H as [| | | |l l' Hl|]; subst; cbn; auto.
  destruct Hl as [|a a' l l' Ha Hl]; [cbn; auto|]. destruct Hl as [|b b' l l' Hb Hl]; [cbn; auto|].
  destruct Hl; [|cbn; auto]. cbn [y_pair].
  apply bind_sim; [apply flat_int; exact Ha|]. intros x. apply bind_sim; [apply flat_int; exact Hb|]. intros y. reflexivity.
Qed.
Lemma flat_array : flat _ parse_array.
Proof. intros v v' H. unfold parse_array. apply bind_sim; [apply flat_int_or_list; exact H|]. intros l. apply res_sim_refl. Qed.

Lemma yopt_sim T (f : yv -> res T) o o' : flat _ f -> orel ysim o o' -> res_sim (yopt f o) (yopt f o').
Proof.
  intros Hf H. destruct H as [|x y Hxy]; [reflexivity|].
  inversion Hxy; subst; cbn [yopt]; try reflexivity;
    (apply bind_sim; [apply Hf; exact Hxy|intros ?; reflexivity]).
Qed.
Lemma yreq_sim T what k (f : yv -> res T) m m' :
  (forall x y, ysim x y -> res_sim (f x) (f y)) -> (forall k, orel ysim (yget k m) (yget k m')) ->
  res_sim (yreq what k f m) (yreq what k f m').
Proof. intros Hf H. unfold yreq. destruct (H k) as [|x y Hxy]; [exact I|apply Hf; exact Hxy]. Qed.

Ltac step := first [apply bind_sim; [|intros ?] | apply res_sim_refl].

Lemma parse_range_sim v v' : ysim v v' -> res_sim (parse_range v) (parse_range v').
Proof.
  intros H. unfold parse_range. pose proof (ymap_sim "addr_range" v v' H) as Hm.
  destruct (ymap "addr_range" v) as [m|], (ymap "addr_range" v') as [m'|]; cbn [bind]; try tauto; try exact I.
  apply bind_sim; [apply forbid_extra_sim; exact Hm|intros _].
  repeat (apply bind_sim; [apply yopt_sim; [exact flat_int || exact flat_str|apply Hm]|intros ?]).
  reflexivity.
Qed.

Lemma xy_off_sim m m' : (forall k, orel ysim (yget k m) (yget k m')) ->
  res_sim (match yget "xy_id_offset" m with None | Some YNull => Ok tt | Some _ => Err "xy_id_offset on descriptors is not modelled" end)
          (match yget "xy_id_offset" m' with None | Some YNull => Ok tt | Some _ => Err "xy_id_offset on descriptors is not modelled" end).
Proof. intros Hm. destruct (Hm "xy_id_offset") as [|x y Hxy]; [reflexivity|]. inversion Hxy; subst; cbn; auto. Qed.

Lemma parse_ep_sim v v' : ysim v v' -> res_sim (parse_ep v) (parse_ep v').
Proof.
  intros H. unfold parse_ep. pose proof (ymap_sim "endpoint" v v' H) as Hm.
  destruct (ymap "endpoint" v) as [m|], (ymap "endpoint" v') as [m'|]; cbn [bind]; try tauto; try exact I.
  apply bind_sim; [apply forbid_extra_sim; exact Hm|intros _].
  apply bind_sim; [apply yreq_sim; [exact flat_str|exact Hm]|intros name].
  apply bind_sim; [apply yopt_sim; [exact flat_array|apply Hm]|intros arr].
  apply bind_sim.
  { destruct (Hm "addr_range") as [|x y Hxy]; [reflexivity|].
    inversion Hxy; subst; try (apply bind_sim; [apply parse_range_sim; exact Hxy|intros ?; reflexivity]).
    apply (mapM_sim ysim); [assumption|exact parse_range_sim]. }
  intros rs.
  apply bind_sim; [apply yopt_sim; [exact flat_strlist|apply Hm]|intros mgr].
  apply bind_sim; [apply yopt_sim; [exact flat_strlist|apply Hm]|intros sbr].
  apply bind_sim; [apply xy_off_sim; exact Hm|intros _].
  apply res_sim_refl.
Qed.

Lemma parse_rt_sim v v' : ysim v v' -> res_sim (parse_rt v) (parse_rt v').
Proof.
  intros H. unfold parse_rt. pose proof (ymap_sim "router" v v' H) as Hm.
  destruct (ymap "router" v) as [m|], (ymap "router" v') as [m'|]; cbn [bind]; try tauto; try exact I.
  apply bind_sim; [apply forbid_extra_sim; exact Hm|intros _].
  apply bind_sim; [apply yreq_sim; [exact flat_str|exact Hm]|intros name].
  apply bind_sim; [apply yopt_sim; [exact flat_array|apply Hm]|intros arr].
  apply bind_sim; [apply yopt_sim; [exact flat_int_or_list|apply Hm]|intros tree].
  apply bind_sim; [apply yopt_sim; [exact flat_bool|apply Hm]|intros auto].
  apply bind_sim; [apply yopt_sim; [exact flat_int|apply Hm]|intros deg].
  apply bind_sim; [apply xy_off_sim; exact Hm|intros _].
  reflexivity.
Qed.

Lemma parse_conn_sim v v' : ysim v v' -> res_sim (parse_conn v) (parse_conn v').
Proof.
  intros H. unfold parse_conn. pose proof (ymap_sim "connection" v v' H) as Hm.
  destruct (ymap "connection" v) as [m|], (ymap "connection" v') as [m'|]; cbn [bind]; try tauto; try exact I.
  apply bind_sim; [apply forbid_extra_sim; exact Hm|intros _].
  apply bind_sim; [apply yreq_sim; [exact flat_str|exact Hm]|intros src].
  apply bind_sim; [apply yreq_sim; [exact flat_str|exact Hm]|intros dst].
  apply bind_sim; [apply yopt_sim; [exact (flat_list _ y_pair "range" flat_pair)|apply Hm]|intros sr].
  apply bind_sim; [apply yopt_sim; [exact (flat_list _ y_pair "range" flat_pair)|apply Hm]|intros dr].
  apply bind_sim; [apply yopt_sim; [exact flat_int_or_list|apply Hm]|intros si].
  apply bind_sim; [apply yopt_sim; [exact flat_int_or_list|apply Hm]|intros di].
  apply bind_sim; [apply yopt_sim; [exact flat_int|apply Hm]|intros sl].
  apply bind_sim; [apply yopt_sim; [exact flat_int|apply Hm]|intros dl].
  apply bind_sim; [apply yopt_sim; [exact flat_dir|apply Hm]|intros sd].
  apply bind_sim; [apply yopt_sim; [exact flat_dir|apply Hm]|intros dd].
  apply bind_sim; [apply yopt_sim; [exact flat_bool|apply Hm]|intros mu].
  apply bind_sim; [apply yopt_sim; [exact flat_bool|apply Hm]|intros bi].
  apply res_sim_refl.
Qed.

Lemma parse_proto_sim v v' : ysim v v' -> res_sim (parse_proto v) (parse_proto v').
Proof.
  intros H. unfold parse_proto. pose proof (ymap_sim "protocol" v v' H) as Hm.
  destruct (ymap "protocol" v) as [m|], (ymap "protocol" v') as [m'|]; cbn [bind]; try tauto; try exact I.
  apply bind_sim; [apply forbid_extra_sim; exact Hm|intros _].
  apply bind_sim; [apply yreq_sim; [exact flat_str|exact Hm]|intros name].
  apply bind_sim; [apply yreq_sim; [exact flat_str|exact Hm]|intros pr].
  apply bind_sim; [apply res_sim_refl|intros _].
  apply bind_sim; [apply yopt_sim; [exact flat_str|apply Hm]|intros ty].
  apply bind_sim; [apply res_sim_refl|intros _].
  apply bind_sim; [apply yreq_sim; [exact flat_int|exact Hm]|intros dw].
  apply bind_sim; [apply yreq_sim; [exact flat_int|exact Hm]|intros aw].
  apply bind_sim; [apply yreq_sim; [exact flat_int|exact Hm]|intros iw].
  apply bind_sim; [apply yreq_sim; [exact flat_int|exact Hm]|intros uw].
  apply bind_sim.
  { destruct (Hm "type_prefix") as [|x y Hxy]; [reflexivity|].
    inversion Hxy; subst; try reflexivity; (apply bind_sim; [apply flat_str; exact Hxy|intros ?; reflexivity]). }
  intros pf. reflexivity.
Qed.

Theorem parse_desc_sim v v' : ysim v v' -> res_sim (parse_desc v) (parse_desc v').
Proof.
  intros H. unfold parse_desc. pose proof (ymap_sim "network" v v' H) as Hm.
  destruct (ymap "network" v) as [m|], (ymap "network" v') as [m'|]; cbn [bind]; try tauto; try exact I.
  apply bind_sim; [apply forbid_extra_sim; exact Hm|intros _].
  apply bind_sim; [apply yreq_sim; [exact flat_str|exact Hm]|intros name].
  apply bind_sim; [destruct (Hm "description"); reflexivity|intros _].
  apply bind_sim; [apply yreq_sim; [exact flat_str|exact Hm]|intros nt].
  apply bind_sim; [apply res_sim_refl|intros nw].
  apply bind_sim; [apply yreq_sim; [exact (flat_list _ parse_proto "protocols" parse_proto_sim)|exact Hm]|intros protos].
  apply bind_sim; [apply yreq_sim; [exact (flat_list _ parse_ep "endpoints" parse_ep_sim)|exact Hm]|intros eps].
  apply bind_sim; [apply yreq_sim; [exact (flat_list _ parse_rt "routers" parse_rt_sim)|exact Hm]|intros rts].
  apply bind_sim; [apply yreq_sim; [exact (flat_list _ parse_conn "connections" parse_conn_sim)|exact Hm]|intros conns].
  (* the routing section: a mapping again *)
  unfold yreq at 1 3. destruct (Hm "routing") as [|x y Hxy]; [exact I|].
  pose proof (ymap_sim "routing" x y Hxy) as Hr.
  destruct (ymap "routing" x) as [rm|], (ymap "routing" y) as [rm'|]; cbn [bind]; try tauto; try exact I.
  apply bind_sim; [apply forbid_extra_sim; exact Hr|intros _].
  apply bind_sim.
  { apply yreq_sim; [|exact Hr]. intros a b Hab. apply bind_sim; [apply flat_str; exact Hab|intros ?; apply res_sim_refl]. }
  intros al.
  apply bind_sim; [apply yopt_sim; [exact flat_bool|apply Hr]|intros ut].
  apply res_sim_refl.
Qed.

(* hence the whole model run: the same netlist, or rejection of both *)
Theorem run_yaml_sim sp v v' : ysim v v' -> res_sim (run_yaml sp v) (run_yaml sp v').
Proof. intros H. unfold run_yaml. apply bind_sim; [apply parse_desc_sim; exact H|]. intros d. apply res_sim_refl. Qed.

(* ------------------------------------------------------------------ similarity is an equivalence *)
(* (reflexivity: ysim_refl above) so that reorderings compose and can be undone *)
Lemma ysim_sym : forall a b, ysim a b -> ysim b a.
Proof.
  fix IH 3. intros a b H. destruct H as [| | | |l l' Hl|m m' Hm]; try constructor.
  - revert l l' Hl. fix IHl 3. intros l l' Hl. destruct Hl as [|x y l l' Hxy Hl]; constructor; [apply IH; exact Hxy|apply IHl; exact Hl].
  - intros k. destruct (Hm k) as [|x y Hxy]; constructor. apply IH. exact Hxy.
Qed.
Lemma ysim_trans : forall a b c, ysim a b -> ysim b c -> ysim a c.
Proof.
  fix IH 4. intros a b c H1 H2. destruct H1 as [| | | |l l' Hl|m m' Hm]; inversion H2; subst; try constructor.
  - clear H2. match goal with X : Forall2 ysim l' ?l3 |- _ => rename X into Hl2; revert l l' l3 Hl Hl2 end.
    fix IHl 4. intros l l' l3 Hl Hl2. destruct Hl as [|x y l l' Hxy Hl]; inversion Hl2; subst; constructor;
      [eapply IH; [exact Hxy|eassumption]|eapply IHl; [exact Hl|eassumption]].
  - clear H2. intros k. match goal with X : forall k, orel ysim (yget k m') (yget k ?m3) |- _ => pose proof (X k) as H3 end.
    destruct (Hm k) as [|x y Hxy]; inversion H3; subst; constructor. eapply IH; [exact Hxy|eassumption].
Qed.

(* ------------------------------------------------------------------ a decision procedure that is sound for ysim *)
(* (fuel = nesting depth) mappings: distinct keys on both sides, as many entries, every entry of the left answered by a
   similar value on the right *)
Fixpoint ysimb (fuel : nat) (a b : yv) : bool :=
  match fuel with
  | O => false
  | S f =>
      match a, b with
      | YNull, YNull => true
      | YBool x, YBool y => Bool.eqb x y
      | YInt x, YInt y => x =? y
      | YStr x, YStr y => str_eqb x y
      | YList l, YList l' =>
          (fix go (l l' : list yv) : bool :=
             match l, l' with
             | [], [] => true
             | x :: r, y :: r' => ysimb f x y && go r r'
             | _, _ => false
             end) l l'
      | YMap m, YMap m' =>
          nodupb str_eqb (map fst m) && nodupb str_eqb (map fst m') && Nat.eqb (length m) (length m') &&
          forallb (fun kv => match yget (fst kv) m' with Some y => ysimb f (snd kv) y | None => false end) m
      | _, _ => false
      end
  end.

Local Lemma nodupb_sound l : nodupb str_eqb l = true -> NoDup l.
Proof.
  induction l as [|x l IH]; cbn [nodupb]; [constructor|]. intros H. apply andb_true_iff in H. destruct H as (H1 & H2).
  constructor; [|auto]. intros Hin. apply negb_true_iff in H1.
  assert (existsb (str_eqb x) l = true) by (apply existsb_exists; exists x; split; [exact Hin|apply str_eqb_eq; reflexivity]). congruence.
Qed.

Theorem ysimb_sound : forall fuel a b, ysimb fuel a b = true -> ysim a b.
Proof.
  induction fuel as [|f IH]; [discriminate|]. intros a b H. cbn [ysimb] in H.
  destruct a as [| x | x | x | l | m], b as [| y | y | y | l' | m']; try discriminate.
  - constructor.
  - apply Bool.eqb_prop in H. subst. constructor.
  - apply Z.eqb_eq in H. subst. constructor.
  - apply str_eqb_eq in H. subst. constructor.
  - constructor. revert l' H. induction l as [|x r IHr]; intros [|y r'] H; try discriminate; [constructor|].
    apply andb_true_iff in H. destruct H as (H1 & H2). constructor; [apply IH; exact H1|apply IHr; exact H2].
  - repeat (apply andb_true_iff in H; destruct H as (H & ?)).
    match goal with X : forallb _ m = true |- _ => rename X into Hall end.
    match goal with X : Nat.eqb _ _ = true |- _ => apply Nat.eqb_eq in X; rename X into Hlen end.
    match goal with X : nodupb _ (map fst m') = true |- _ => apply nodupb_sound in X; rename X into Hnd' end.
    apply nodupb_sound in H. rename H into Hnd.
    rewrite forallb_forall in Hall.
    assert (Hinc : incl (map fst m) (map fst m')).
    { intros k Hk. apply in_map_iff in Hk. destruct Hk as ([k0 x] & <- & Hin). specialize (Hall _ Hin). cbn [fst snd] in Hall.
      destruct (yget k0 m') as [y|] eqn:E; [|discriminate]. apply yget_in in E. apply in_map_iff. exists (k0, y). auto. }
    assert (Hinc' : incl (map fst m') (map fst m)).
    { apply NoDup_length_incl; [exact Hnd| |exact Hinc]. rewrite !map_length. lia. }
    constructor. intros k. destruct (yget k m) as [x|] eqn:E.
    + pose proof (yget_in _ _ _ E) as Hin. specialize (Hall _ Hin). cbn [fst snd] in Hall.
      destruct (yget k m') as [y|]; [|discriminate]. constructor. apply IH. exact Hall.
    + apply yget_none in E. destruct (yget k m') as [y|] eqn:E'; [|constructor].
      exfalso. apply E. apply Hinc'. apply yget_in in E'. apply in_map_iff. exists (k, y). auto.
Qed.
