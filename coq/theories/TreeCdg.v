(* TreeCdg.v — C09 for trees, universally: routes that never turn back, over links that carry a depth
   function with one parent per node, induce an acyclic channel-dependency graph.
   The classical argument: every link goes up (towards smaller depth) or down; a route climbs, then
   descends; rank up-links by falling depth and down-links by rising depth above all up-links; every
   dependency strictly raises the rank.  No bound on the size of the tree or the number of routes. *)
From FV Require Import Base RouteMap Netlist Compile Hw Check CheckProofs CdgProofs Side.
From Coq Require Import ZifyBool.

Lemma rank_acyclic (E : egraph) (rank : string -> Z) :
  (forall u v, In (u, v) E -> rank u < rank v) -> acyclic E.
Proof.
  intros H. assert (P : forall u v, path E u v -> rank u < rank v).
  { induction 1 as [u v Hi|u v w Hi _ IH]; [exact (H _ _ Hi)|]. pose proof (H _ _ Hi). lia. }
  intros v Hp. pose proof (P _ _ Hp). lia.
Qed.

Lemma consecutive_cons2 {T} (a b : T) l : consecutive (a :: b :: l) = (a, b) :: consecutive (b :: l).
Proof. reflexivity. Qed.

Lemma consecutive_map {A B} (f : A -> B) l : consecutive (map f l) = map (fun p => (f (fst p), f (snd p))) (consecutive l).
Proof.
  induction l as [|a [|b l] IH]; [reflexivity|reflexivity|].
  cbn [map]. rewrite !consecutive_cons2. cbn [map fst snd]. f_equal. exact IH.
Qed.

(* consecutive pairs of consecutive pairs are the triples of a list *)
Lemma consecutive2_triples {T} (l : list T) x y :
  In (x, y) (consecutive (consecutive l)) ->
  exists a b c pre post, l = pre ++ a :: b :: c :: post /\ x = (a, b) /\ y = (b, c).
Proof.
  induction l as [|a l IH]; [intros []|].
  destruct l as [|b [|c l]]; [intros []|intros []|].
  change (consecutive (consecutive (a :: b :: c :: l))) with (((a, b), (b, c)) :: consecutive (consecutive (b :: c :: l))).
  intros [Hi|Hi].
  - inversion Hi; subst. exists a, b, c, [], l. auto.
  - destruct (IH Hi) as (a' & b' & c' & pre & post & E & -> & ->). exists a', b', c', (a :: pre), post.
    rewrite E. auto.
Qed.

Lemma consecutive_In_app {T} (pre post : list T) a b : In (a, b) (consecutive (pre ++ a :: b :: post)).
Proof.
  induction pre as [|x [|y pre] IH]; cbn [app].
  - left. reflexivity.
  - rewrite consecutive_cons2. right. exact IH.
  - rewrite consecutive_cons2. right. exact IH.
Qed.

Lemma NoDup_drop {A} (pre l : list A) : NoDup (pre ++ l) -> NoDup l.
Proof. induction pre as [|x pre IH]; cbn; [auto|]. intros H. inversion H; subst. auto. Qed.

Section Tree.
  Variable nt : net.
  Variable L : list link.                   (* the links of the network *)
  Variable dep : string -> Z.               (* a depth for every unit *)
  Hypothesis dep_nonneg : forall u v, In (u, v) L -> 0 <= dep u /\ 0 <= dep v.
  Hypothesis dep_step : forall u v, In (u, v) L -> dep v = dep u + 1 \/ dep u = dep v + 1.
  Hypothesis one_parent : forall b a c, In (b, a) L -> In (b, c) L -> dep a < dep b -> dep c < dep b -> a = c.
  Hypothesis L_sym : forall u v, In (u, v) L -> In (v, u) L.
  Hypothesis names : forall l1 l2, In l1 L -> In l2 L -> flow nt l1 = flow nt l2 -> l1 = l2.

  Definition link_rank (l : link) : Z := if dep (snd l) <? dep (fst l) then - dep (fst l) else dep (snd l).
  Definition sig_rank (s : string) : Z :=
    match find (fun l => str_eqb (flow nt l) s) L with Some l => link_rank l | None => 0 end.

  Lemma sig_rank_flow l : In l L -> sig_rank (flow nt l) = link_rank l.
  Proof.
    intros Hl. unfold sig_rank. destruct (find _ L) as [l'|] eqn:F.
    - apply find_some in F. destruct F as (Hl' & Hq). apply str_eqb_eq in Hq. rewrite (names l' l Hl' Hl Hq). reflexivity.
    - exfalso. pose proof (find_none _ _ F l Hl) as X. cbv beta in X. rewrite (proj2 (str_eqb_eq _ _) eq_refl) in X. discriminate.
  Qed.

  Lemma turn_raises_rank a b c : In (a, b) L -> In (b, c) L -> a <> c -> link_rank (a, b) < link_rank (b, c).
  Proof.
    intros H1 H2 Hne. unfold link_rank. cbn [fst snd].
    pose proof (dep_nonneg _ _ H1). pose proof (dep_nonneg _ _ H2).
    pose proof (dep_step _ _ H1). pose proof (dep_step _ _ H2).
    destruct (dep b <? dep a) eqn:E1; destruct (dep c <? dep b) eqn:E2; try lia.
    (* down, then up: both a and c would be parents of b *)
    exfalso. apply Hne. apply (one_parent b a c); [apply L_sym; exact H1|exact H2|lia|lia].
  Qed.

  (* the routes: node lists that follow links and never return to the node before the last *)
  Variable routes : list (list string).
  Hypothesis routes_links : forall p a b, In p routes -> In (a, b) (consecutive p) -> In (a, b) L.
  Hypothesis routes_nodup : forall p, In p routes -> NoDup p.

  Definition route_sigs (p : list string) : list string := map (flow nt) (consecutive p).
  Definition route_deps : egraph := flat_map (fun p => consecutive (route_sigs p)) routes.

  Theorem tree_routes_acyclic : acyclic route_deps.
  Proof.
    apply (rank_acyclic _ sig_rank). intros u v Hin. unfold route_deps in Hin. apply in_flat_map in Hin.
    destruct Hin as (p & Hp & Hin). unfold route_sigs in Hin. rewrite consecutive_map in Hin.
    apply in_map_iff in Hin. destruct Hin as ((x & y) & Hq & Hin). cbn [fst snd] in Hq. inversion Hq; subst u v; clear Hq.
    destruct (consecutive2_triples _ _ _ Hin) as (a & b & c & pre & post & E & -> & ->).
    assert (Hab : In (a, b) L) by (apply (routes_links p); [exact Hp|rewrite E; apply consecutive_In_app]).
    assert (Hbc : In (b, c) L).
    { apply (routes_links p); [exact Hp|]. rewrite E. change (a :: b :: c :: post) with ([a] ++ b :: c :: post).
      rewrite app_assoc. apply consecutive_In_app. }
    assert (Hne : a <> c).
    { pose proof (routes_nodup p Hp) as Hn. rewrite E in Hn. apply NoDup_drop in Hn.
      inversion Hn as [|? ? Hni _]; subst. intros ->. apply Hni. cbn. auto. }
    rewrite !sig_rank_flow by assumption. apply turn_raises_rank; assumption.
  Qed.
End Tree.
