(* NxProofs.v — the mirror of networkx's bidirectional shortest-path search (Paths.sp_nx, what nx.shortest_path runs
   and what makes the model's netlists identical to floogen's) returns SHORTEST PATHS: it meets the oracle contract
   under which the routing theorems are proved.  Any directed graph whose edge ends are nodes; no bound on its size. *)
From FV Require Import Base RouteMap Netlist Hw Check CheckProofs Graph Paths PathProofs.
From Coq Require Import ZifyBool.

Section Nx.
  Variable g : graph.
  Definition E (u v : string) : Prop := exists e, In e (g_edges g) /\ e_src e = u /\ e_dst e = v.

  Lemma succ_iff u v : In v (successors g u) <-> E u v.
  Proof.
    unfold successors, E. rewrite in_map_iff. split.
    - intros (e & <- & He). apply filter_In in He. destruct He as (He & Hq). apply str_eqb_eq in Hq. eauto.
    - intros (e & He & <- & <-). exists e. split; [reflexivity|]. apply filter_In. split; [exact He|apply str_eqb_eq; reflexivity].
  Qed.
  Lemma pred_iff u v : In u (predecessors g v) <-> E u v.
  Proof.
    unfold predecessors, E. rewrite in_map_iff. split.
    - intros (e & <- & He). apply filter_In in He. destruct He as (He & Hq). apply str_eqb_eq in Hq. eauto.
    - intros (e & He & <- & <-). exists e. split; [reflexivity|]. apply filter_In. split; [exact He|apply str_eqb_eq; reflexivity].
  Qed.

  (* reach R k a b: b is reached from a by k steps of R *)
  Inductive reach (R : string -> string -> Prop) : nat -> string -> string -> Prop :=
  | reach_O a : reach R O a a
  | reach_S k a b c : reach R k a b -> R b c -> reach R (S k) a c.

  Lemma reach_cons (R : string -> string -> Prop) k a b c : R a b -> reach R k b c -> reach R (S k) a c.
  Proof. intros Hab H. induction H as [b|k b x c _ IH Hxc]; [eapply reach_S; [apply reach_O|exact Hab]|eapply reach_S; eauto]. Qed.
  Lemma reach_split (R : string -> string -> Prop) a b : forall s t, reach R (a + b) s t -> exists x, reach R a s x /\ reach R b x t.
  Proof.
    induction b as [|b IH]; intros s t H.
    - rewrite Nat.add_0_r in H. exists t. split; [exact H|apply reach_O].
    - rewrite Nat.add_succ_r in H. inversion H as [|k a' x c Hk Hxc]; subst.
      destruct (IH _ _ Hk) as (y & Hy1 & Hy2). exists y. split; [exact Hy1|eapply reach_S; eauto].
  Qed.
  Lemma reach_app (R : string -> string -> Prop) a b s x t : reach R a s x -> reach R b x t -> reach R (a + b) s t.
  Proof. intros H1 H2. induction H2 as [x|k x y c _ IH Hyc]; [rewrite Nat.add_0_r; exact H1|rewrite Nat.add_succ_r; eapply reach_S; eauto]. Qed.
  Lemma closed_reach (R : string -> string -> Prop) (P : string -> Prop) a :
    P a -> (forall b c, P b -> R b c -> P c) -> forall k x, reach R k a x -> P x.
  Proof.
    intros Ha Hstep k x H. revert Ha. induction H as [a|k a b c _ IH Hbc]; intros Ha; [exact Ha|].
    eapply Hstep; [apply IH; exact Ha|exact Hbc].
  Qed.
  Definition flipR (R : string -> string -> Prop) := fun a b => R b a.
  Lemma reach_flip (R : string -> string -> Prop) k a b : reach R k a b -> reach (flipR R) k b a.
  Proof. induction 1 as [a|k a b c _ IH Hbc]; [apply reach_O|eapply reach_cons; [exact Hbc|exact IH]]. Qed.

  (* walks as lists *)
  Lemma reach_of_walk : forall p a b, is_walk E p -> hd_error p = Some a -> last p a = b -> reach E (length p - 1) a b.
  Proof.
    induction p as [|x p IH]; intros a b Hw Hh Hl; [discriminate|]. cbn in Hh. inversion Hh; subst x.
    destruct p as [|y p'].
    - cbn in Hl. subst b. apply reach_O.
    - cbn [is_walk] in Hw. destruct Hw as (Hay & Hw').
      replace (length (a :: y :: p') - 1)%nat with (S (length (y :: p') - 1)) by (cbn [length]; lia).
      eapply reach_cons; [exact Hay|]. apply IH; [exact Hw'|reflexivity|].
      rewrite <- Hl. cbn [last]. apply last_indep.
  Qed.

  (* ---------------------------------------------------------------- association maps *)
  Definition keys (m : amap) : list string := map fst m.
  Lemma amem_iff k m : amem k m = true <-> In k (keys m).
  Proof.
    unfold amem, keys. rewrite existsb_exists, in_map_iff. split.
    - intros (p & Hp & Hq). apply str_eqb_eq in Hq. eauto.
    - intros (p & Hq & Hp). exists p. split; [exact Hp|apply str_eqb_eq; exact Hq].
  Qed.
  Lemma amem_false k m : amem k m = false <-> ~ In k (keys m).
  Proof. rewrite <- amem_iff. destruct (amem k m); split; intros; congruence. Qed.
  Lemma aget_app_old k m m' : In k (keys m) -> aget k (m ++ m') = aget k m.
  Proof.
    unfold aget, keys. intros H. f_equal. induction m as [|p m IH]; [destruct H|]. cbn [app find].
    destruct (str_eqb (fst p) k) eqn:Eq; [reflexivity|]. apply IH. destruct H as [H|H]; [|exact H].
    apply (proj2 (str_eqb_eq _ _)) in H. congruence.
  Qed.
  Lemma aget_app_new k m v : ~ In k (keys m) -> aget k (m ++ [(k, v)]) = Some v.
  Proof.
    unfold aget, keys. intros H. induction m as [|p m IH]; cbn [app find].
    - cbn. rewrite (proj2 (str_eqb_eq k k) eq_refl). reflexivity.
    - destruct (str_eqb (fst p) k) eqn:Eq; [apply str_eqb_eq in Eq; exfalso; apply H; left; exact Eq|].
      apply IH. intros Hin. apply H. right. exact Hin.
  Qed.
  Lemma aget_some_key k m v : aget k m = Some v -> In k (keys m).
  Proof.
    unfold aget, keys. destruct (find _ m) as [p|] eqn:F; [|discriminate]. intros _. apply find_some in F.
    destruct F as (Hin & Hq). apply str_eqb_eq in Hq. rewrite <- Hq. apply in_map. exact Hin.
  Qed.

  (* chain m r v k: following the recorded pointers from v reaches the root r (the only entry without pointer) in k steps *)
  Inductive chain (m : amap) (r : string) : string -> nat -> Prop :=
  | chain_root : aget r m = Some None -> chain m r r O
  | chain_step v u k : aget v m = Some (Some u) -> chain m r u k -> chain m r v (S k).

  Lemma chain_inv m r v k : chain m r v k ->
    (k = O /\ v = r /\ aget r m = Some None) \/ (exists u k', k = S k' /\ aget v m = Some (Some u) /\ chain m r u k').
  Proof. destruct 1 as [Hr|v u k Hv Hc]; [left; auto|right; eauto]. Qed.
  Lemma chain_ext m m' r v k : chain m r v k -> chain (m ++ m') r v k.
  Proof.
    induction 1 as [Hr|v u k Hv _ IH].
    - apply chain_root. rewrite aget_app_old; [exact Hr|eapply aget_some_key; eauto].
    - eapply chain_step; [|exact IH]. rewrite aget_app_old; [exact Hv|eapply aget_some_key; eauto].
  Qed.
  Lemma chain_key m r v k : chain m r v k -> In v (keys m).
  Proof. destruct 1; eapply aget_some_key; eauto. Qed.
  Lemma chain_fun m r v k k' : chain m r v k -> chain m r v k' -> k = k'.
  Proof.
    intros H. revert k'. induction H as [Hr|v u k Hv _ IH]; intros k' H'; inversion H' as [Hr'|v' u' k2 Hv' Hc']; subst; try congruence.
    rewrite Hv in Hv'. inversion Hv'; subst u'. f_equal. apply IH. exact Hc'.
  Qed.

  (* the pointers of a chain follow relation R (from the node to what it points to) *)
  Definition ptr_ok (R : string -> string -> Prop) (m : amap) : Prop :=
    forall v u, aget v m = Some (Some u) -> R v u.
  Lemma chain_reach (R : string -> string -> Prop) m r v k : ptr_ok R m -> chain m r v k -> reach R k v r.
  Proof.
    intros Hp. induction 1 as [Hr|v u k Hv _ IH]; [apply reach_O|]. eapply reach_cons; [apply Hp; exact Hv|exact IH].
  Qed.

  (* chase returns the nodes of the chain, the start first, the root last *)
  Lemma chase_chain (R : string -> string -> Prop) m r : ptr_ok R m -> forall v k, chain m r v k -> forall fuel, (k < fuel)%nat ->
    let l := chase fuel m v in
    length l = S k /\ hd_error l = Some v /\ last l v = r /\ is_walk R l.
  Proof.
    intros Hp v k H. induction H as [Hr|v u k Hv Hc IH]; intros fuel Hf; (destruct fuel as [|fuel]; [lia|]); cbn [chase].
    - rewrite Hr. cbn. auto.
    - rewrite Hv. destruct (IH fuel ltac:(lia)) as (I1 & I2 & I3 & I4). cbv zeta.
      destruct (chase fuel m u) as [|x xs] eqn:Ec; [cbn in I1; lia|]. cbn in I2. inversion I2; subst x.
      split; [cbn [length] in *; lia|]. split; [reflexivity|]. split.
      + change (last (v :: u :: xs) v) with (last (u :: xs) v). rewrite (last_indep xs u v u). exact I3.
      + cbn [is_walk]. split; [apply Hp; exact Hv|exact I4].
  Qed.

  Lemma NoDup_app_snoc {A} (l : list A) x : NoDup l -> ~ In x l -> NoDup (l ++ [x]).
  Proof.
    induction l as [|a l IH]; intros Hn Hx; cbn; [constructor; [intros []|constructor]|].
    inversion Hn; subst. constructor.
    - intros Hin. apply in_app_or in Hin. destruct Hin as [Hin|[<-|[]]]; [contradiction|]. apply Hx. left. reflexivity.
    - apply IH; [assumption|]. intros Hin. apply Hx. right. exact Hin.
  Qed.

  (* ---------------------------------------------------------------- one level of one direction *)
  Definition step (other : amap) (v : string) (acc : option string * (amap * list string)) (w : string) :=
    match acc with
    | (Some _, _) => acc
    | (None, (mine, fringe)) =>
        let '(mine, fringe) := if amem w mine then (mine, fringe) else (mine ++ [(w, Some v)], fringe ++ [w]) in
        if amem w other then (Some w, (mine, fringe)) else (None, (mine, fringe))
    end.
  Definition gen_level (nbrs : string -> list string) (level : list string) (mine other : amap) :=
    fold_left (fun acc v => fold_left (step other v) (nbrs v) acc) level (None, (mine, [])).

  Lemma fwd_level_gen level pred succ : fwd_level g level pred succ = gen_level (successors g) level pred succ.
  Proof. reflexivity. Qed.
  Lemma rev_level_gen level pred succ : rev_level g level pred succ = gen_level (predecessors g) level succ pred.
  Proof. reflexivity. Qed.

  Section Level.
    Variable nbrs : string -> list string.
    Variables (level : list string) (mine other : amap).
    Let N (v w : string) : Prop := In w (nbrs v).

    Definition ext_ok (ext : amap) : Prop :=
      NoDup (keys ext) /\ (forall k, In k (keys ext) -> ~ In k (keys mine)) /\
      forall w p, In (w, p) ext -> exists v, In v level /\ p = Some v /\ N v w.

    Definition st_ok (P : string -> string -> Prop) (acc : option string * (amap * list string)) : Prop :=
      exists ext, fst (snd acc) = mine ++ ext /\ keys ext = snd (snd acc) /\ ext_ok ext /\
        match fst acc with
        | None => forall v w, P v w -> In w (keys (mine ++ ext)) /\ ~ In w (keys other)
        | Some w => In w (keys (mine ++ ext)) /\ In w (keys other)
        end.

    Lemma keys_app (a b : amap) : keys (a ++ b) = keys a ++ keys b.
    Proof. unfold keys. apply map_app. Qed.

    Lemma step_ok P v acc w : In v level -> N v w -> st_ok P acc ->
      st_ok (fun a b => P a b \/ (a = v /\ b = w)) (step other v acc w).
    Proof.
      intros Hv Hw (ext & He & Hk & (Hnd & Hnew & Hpar) & Hres). destruct acc as [[f|] [m fr]]; cbn [fst snd] in *.
      - (* already found *) exists ext. cbn [step fst snd]. destruct Hres. repeat split; auto.
      - cbn [step]. subst m.
        destruct (amem w (mine ++ ext)) eqn:Em.
        + (* w is known *)
          destruct (amem w other) eqn:Eo; cbn [fst snd].
          * exists ext. split; [reflexivity|]. split; [exact Hk|]. split; [repeat split; assumption|].
            split; [apply amem_iff; exact Em|apply amem_iff; exact Eo].
          * exists ext. split; [reflexivity|]. split; [exact Hk|]. split; [repeat split; assumption|].
            intros a b [Hab|(-> & ->)]; [apply (Hres a b); exact Hab|]. split; [apply amem_iff; exact Em|apply amem_false; exact Eo].
        + (* w is new *)
          apply amem_false in Em. rewrite keys_app in Em.
          assert (Hext' : ext_ok (ext ++ [(w, Some v)])).
          { split; [|split].
            - rewrite keys_app. cbn. apply NoDup_app_snoc; [exact Hnd|]. intros Hin. apply Em. apply in_or_app. right. exact Hin.
            - intros k Hkk. rewrite keys_app in Hkk. apply in_app_or in Hkk. destruct Hkk as [Hkk|[<-|[]]]; [apply Hnew; exact Hkk|].
              intros Hin. apply Em. apply in_or_app. left. exact Hin.
            - intros w' p Hin. apply in_app_or in Hin. destruct Hin as [Hin|[Hin|[]]]; [apply Hpar; exact Hin|].
              inversion Hin; subst. exists v. auto. }
          assert (Hkw : In w (keys (mine ++ ext ++ [(w, Some v)]))).
          { rewrite !keys_app. apply in_or_app. right. apply in_or_app. right. left. reflexivity. }
          destruct (amem w other) eqn:Eo; cbn [fst snd].
          * exists (ext ++ [(w, Some v)]). rewrite app_assoc. split; [reflexivity|]. split; [rewrite keys_app, Hk; reflexivity|].
            split; [exact Hext'|]. rewrite <- app_assoc. split; [exact Hkw|apply amem_iff; exact Eo].
          * exists (ext ++ [(w, Some v)]). rewrite app_assoc. split; [reflexivity|]. split; [rewrite keys_app, Hk; reflexivity|].
            split; [exact Hext'|]. rewrite <- app_assoc. intros a b [Hab|(-> & ->)].
            -- destruct (Hres a b Hab) as (H1 & H2). split; [|exact H2]. rewrite !keys_app in *. apply in_app_or in H1.
               apply in_or_app. destruct H1 as [H1|H1]; [left; exact H1|right; apply in_or_app; left; exact H1].
            -- split; [exact Hkw|apply amem_false; exact Eo].
    Qed.

    Lemma st_ok_weaken (P Q : string -> string -> Prop) acc : (forall a b, Q a b -> P a b) -> st_ok P acc -> st_ok Q acc.
    Proof.
      intros HQ (ext & He & Hk & Hx & Hres). exists ext. repeat split; try assumption; try apply Hx.
      destruct (fst acc); [exact Hres|]. intros a b Hab. apply (Hres a b). apply HQ. exact Hab.
    Qed.

    Lemma inner_ok v : In v level -> forall ws P acc, (forall w, In w ws -> N v w) -> st_ok P acc ->
      st_ok (fun a b => P a b \/ (a = v /\ In b ws)) (fold_left (step other v) ws acc).
    Proof.
      intros Hv. induction ws as [|w ws IH]; intros P acc Hws Hok; cbn [fold_left].
      - eapply st_ok_weaken; [|exact Hok]. intros a b [H|(_ & [])]. exact H.
      - eapply st_ok_weaken; [|apply (IH _ _ (fun w' Hw' => Hws w' (or_intror Hw')) (step_ok P v acc w Hv (Hws w (or_introl eq_refl)) Hok))].
        cbv beta. intros a b [H|(-> & [<-|Hin])]; auto.
    Qed.

    Lemma outer_ok : forall vs P acc, incl vs level -> st_ok P acc ->
      st_ok (fun a b => P a b \/ (In a vs /\ N a b))
            (fold_left (fun acc v => fold_left (step other v) (nbrs v) acc) vs acc).
    Proof.
      induction vs as [|v vs IH]; intros P acc Hin Hok; cbn [fold_left].
      - eapply st_ok_weaken; [|exact Hok]. intros a b [H|([] & _)]. exact H.
      - eapply st_ok_weaken; [|apply (IH _ _ (fun x Hx => Hin x (or_intror Hx))
                                          (inner_ok v (Hin v (or_introl eq_refl)) (nbrs v) P acc (fun w Hw => Hw) Hok))].
        cbv beta. intros a b [H|([<-|Hin'] & Hn)]; auto.
    Qed.

    Theorem gen_level_spec : st_ok (fun a b => In a level /\ N a b) (gen_level nbrs level mine other).
    Proof.
      unfold gen_level. eapply st_ok_weaken; [|apply (outer_ok level (fun _ _ => False) (None, (mine, [])) (fun x Hx => Hx))].
      - cbv beta. intros a b H. right. exact H.
      - exists []. cbn [fst snd]. rewrite app_nil_r. split; [reflexivity|]. split; [reflexivity|]. split.
        + split; [constructor|]. split; [intros ? []|intros ? ? []].
        + intros ? ? [].
    Qed.
  End Level.

  (* ---------------------------------------------------------------- the invariant of one search direction *)
  Lemma aget_in k x (l : amap) : aget k l = Some x -> In (k, x) l.
  Proof.
    unfold aget. destruct (find _ l) as [p|] eqn:F; [|discriminate]. cbn. intros H. inversion H; subst x.
    apply find_some in F. destruct F as (Hin & Hq). apply str_eqb_eq in Hq. destruct p as [a b]. cbn in *. subst a. exact Hin.
  Qed.
  Lemma aget_nodup k x (l : amap) : NoDup (keys l) -> In (k, x) l -> aget k l = Some x.
  Proof.
    induction l as [|[a b] l IH]; intros Hn Hin; [destruct Hin|]. cbn in Hn. inversion Hn as [|? ? Hna Hn']; subst.
    unfold aget. cbn [find fst]. destruct Hin as [Hin|Hin].
    - inversion Hin; subst. rewrite (proj2 (str_eqb_eq k k) eq_refl). reflexivity.
    - destruct (str_eqb a k) eqn:Eq.
      + apply str_eqb_eq in Eq. subst a. exfalso. apply Hna. change (In (fst (k, x)) (map fst l)). apply in_map. exact Hin.
      + apply IH; assumption.
  Qed.
  Lemma NoDup_app2 {A} (l m : list A) : NoDup l -> NoDup m -> (forall x, In x m -> ~ In x l) -> NoDup (l ++ m).
  Proof.
    intros Hl Hm Hd. induction l as [|a l IH]; [exact Hm|]. cbn. inversion Hl; subst. constructor.
    - intros Hin. apply in_app_or in Hin. destruct Hin as [Hin|Hin]; [contradiction|]. apply (Hd a Hin). left. reflexivity.
    - apply IH; [assumption|]. intros x Hx Hin. apply (Hd x Hx). right. exact Hin.
  Qed.

  Section Side.
    Variable nbrs : string -> list string.
    Let N (v w : string) : Prop := In w (nbrs v).
    Variable r : string.                     (* the root of this direction *)

    Record side_inv (m : amap) (fr : list string) (d : nat) : Prop := {
      si_root : In r (keys m);
      si_fringe : incl fr (keys m);
      si_nodup : NoDup (keys m);
      si_closed : forall v, In v (keys m) -> ~ In v fr -> forall w, N v w -> In w (keys m);
      si_complete : forall k v, reach N k r v -> (k <= d)%nat -> In v (keys m);
      si_chain : forall v, In v (keys m) -> exists k, (k <= d)%nat /\ chain m r v k;
      si_ptr : ptr_ok (flipR N) m }.

    Lemma side_init : side_inv [(r, None)] [r] 0.
    Proof.
      constructor.
      - left. reflexivity.
      - intros x Hx. exact Hx.
      - cbn. constructor; [intros []|constructor].
      - intros v [<-|[]] Hn. exfalso. apply Hn. left. reflexivity.
      - intros k v H Hk. assert (k = 0)%nat by lia. subst k. inversion H; subst. left. reflexivity.
      - intros v [<-|[]]. exists 0%nat. split; [lia|]. apply chain_root. unfold aget. cbn. rewrite (proj2 (str_eqb_eq r r) eq_refl). reflexivity.
      - intros v u H. unfold aget in H. cbn in H. destruct (str_eqb r v); discriminate.
    Qed.

    (* what one level does to the invariant *)
    Lemma side_extend m fr d ext :
      side_inv m fr d -> ext_ok nbrs fr m ext ->
      (forall v w, In v fr -> N v w -> In w (keys (m ++ ext))) ->
      side_inv (m ++ ext) (keys ext) (S d).
    Proof.
      intros Hi (Hnd & Hnew & Hpar) Hall. destruct Hi as [I1 I2 I3 I4 I5 I6 I7].
      assert (Hk : keys (m ++ ext) = keys m ++ keys ext) by apply keys_app.
      assert (Hnd' : NoDup (keys (m ++ ext))) by (rewrite Hk; apply NoDup_app2; assumption).
      assert (Hget : forall v p, In (v, p) ext -> aget v (m ++ ext) = Some p).
      { intros v p Hin. apply aget_nodup; [exact Hnd'|]. apply in_or_app. right. exact Hin. }
      constructor.
      - rewrite Hk. apply in_or_app. left. exact I1.
      - intros x Hx. rewrite Hk. apply in_or_app. right. exact Hx.
      - exact Hnd'.
      - intros v Hv Hnf w Hw. rewrite Hk in Hv. apply in_app_or in Hv. destruct Hv as [Hv|Hv]; [|contradiction].
        destruct (in_dec string_dec v fr) as [Hf|Hf].
        + apply (Hall v w Hf Hw).
        + rewrite Hk. apply in_or_app. left. apply (I4 v Hv Hf w Hw).
      - intros k v Hr Hkd. destruct (Nat.eq_dec k (S d)) as [->|Hne].
        + inversion Hr as [|k' a x c Hrx Hxv]; subst.
          pose proof (I5 _ _ Hrx (le_n d)) as Hx.
          destruct (in_dec string_dec x fr) as [Hf|Hf].
          * apply (Hall x v Hf Hxv).
          * rewrite Hk. apply in_or_app. left. apply (I4 x Hx Hf v Hxv).
        + rewrite Hk. apply in_or_app. left. apply (I5 k v Hr). lia.
      - intros v Hv. rewrite Hk in Hv. apply in_app_or in Hv. destruct Hv as [Hv|Hv].
        + destruct (I6 v Hv) as (k & Hkd & Hc). exists k. split; [lia|apply chain_ext; exact Hc].
        + unfold keys in Hv. apply in_map_iff in Hv. destruct Hv as ([v' p] & Hq & Hin). cbn in Hq. subst v'.
          destruct (Hpar v p Hin) as (u & Hu & -> & Hn).
          destruct (I6 u (I2 u Hu)) as (k & Hkd & Hc). exists (S k). split; [lia|].
          eapply chain_step; [apply Hget; exact Hin|apply chain_ext; exact Hc].
      - intros v u Hg. pose proof (aget_in _ _ _ Hg) as Hin. apply in_app_or in Hin. destruct Hin as [Hin|Hin].
        + apply I7. rewrite aget_app_old in Hg; [exact Hg|]. change (In (fst (v, Some u)) (map fst m)). apply in_map. exact Hin.
        + destruct (Hpar v (Some u) Hin) as (u' & Hu' & Hq & Hn). inversion Hq; subst u'. exact Hn.
    Qed.
  End Side.

  (* ---------------------------------------------------------------- the search loop *)
  Variables s t : string.
  Let Nf (v w : string) : Prop := In w (successors g v).
  Let Nb (v w : string) : Prop := In w (predecessors g v).

  Lemma reach_mono (R R' : string -> string -> Prop) k a b : (forall x y, R x y -> R' x y) -> reach R k a b -> reach R' k a b.
  Proof. intros H. induction 1; [apply reach_O|eapply reach_S; eauto]. Qed.
  Lemma reach_Nf k a b : reach E k a b <-> reach Nf k a b.
  Proof. split; apply reach_mono; intros x y; apply succ_iff. Qed.
  Lemma reach_Nb k a b : reach E k a b <-> reach Nb k b a.
  Proof.
    split; intros H.
    - apply reach_flip in H. eapply reach_mono; [|exact H]. intros x y Hxy. apply pred_iff. exact Hxy.
    - apply reach_flip. eapply reach_mono; [|exact H]. intros x y Hxy. apply pred_iff in Hxy. exact Hxy.
  Qed.

  Record ginv (pred succ : amap) (ff rf : list string) (i j : nat) : Prop := {
    gi_f : side_inv (successors g) s pred ff i;
    gi_b : side_inv (predecessors g) t succ rf j;
    gi_disj : forall x, In x (keys pred) -> ~ In x (keys succ);
    gi_df : (i < length (keys pred))%nat;
    gi_db : (j < length (keys succ))%nat }.

  (* no path from s to t is shorter than the two completed depths together *)
  Lemma no_short_path pred succ ff rf i j : ginv pred succ ff rf i j -> forall L, reach E L s t -> (i + j < L)%nat.
  Proof.
    intros [Gf Gb Gd _ _] L HL. destruct (Nat.lt_ge_cases (i + j) L) as [Hlt|Hge]; [exact Hlt|exfalso].
    set (a := Nat.min i L). set (b := (L - a)%nat).
    assert (Hab : L = (a + b)%nat) by (unfold a, b; lia). rewrite Hab in HL.
    destruct (reach_split E a b _ _ HL) as (x & H1 & H2).
    apply (Gd x).
    - apply (si_complete _ _ _ _ _ Gf a x); [apply reach_Nf; exact H1|unfold a; lia].
    - apply (si_complete _ _ _ _ _ Gb b x); [apply reach_Nb; exact H2|unfold a, b; lia].
  Qed.

  Definition result_ok (res : amap * amap * string) : Prop :=
    let '(pred, succ, w) := res in
    exists kf kb, chain pred s w kf /\ chain succ t w kb /\
      ptr_ok (flipR Nf) pred /\ ptr_ok (flipR Nb) succ /\
      (kf < length (keys pred))%nat /\ (kb < length (keys succ))%nat /\
      NoDup (keys pred) /\ NoDup (keys succ) /\
      (forall x, In x (keys pred) -> exists k, reach Nf k s x) /\ (forall x, In x (keys succ) -> exists k, reach Nb k t x) /\
      forall L, reach E L s t -> (kf + kb <= L)%nat.

  Lemma keys_reach (nbrs : string -> list string) r m fr d : side_inv nbrs r m fr d ->
    forall x, In x (keys m) -> exists k, reach (fun v w => In w (nbrs v)) k r x.
  Proof.
    intros Hi x Hx. destruct (si_chain _ _ _ _ _ Hi x Hx) as (k & _ & Hc). exists k.
    pose proof (chain_reach _ _ _ _ _ (si_ptr _ _ _ _ _ Hi) Hc) as Hr. apply reach_flip in Hr. exact Hr.
  Qed.

  Lemma length_app_keys (m ext : amap) : length (keys (m ++ ext)) = (length (keys m) + length (keys ext))%nat.
  Proof. unfold keys. rewrite map_app, app_length. reflexivity. Qed.

  Theorem bidir_ok : forall fuel pred succ ff rf i j res,
    ginv pred succ ff rf i j -> bidir fuel g pred succ ff rf = Some res -> result_ok res.
  Proof.
    induction fuel as [|fuel IH]; intros pred succ ff rf i j res G H; [discriminate|]. cbn [bidir] in H.
    destruct ff as [|f0 ff']; [discriminate|]. destruct rf as [|r0 rf']; [discriminate|].
    set (ff := f0 :: ff') in *. set (rf := r0 :: rf') in *.
    destruct (Nat.leb (length ff) (length rf)).
    - (* a forward level *)
      rewrite fwd_level_gen in H.
      pose proof (gen_level_spec (successors g) ff pred succ) as (ext & He & Hk & Hx & Hres).
      destruct (gen_level (successors g) ff pred succ) as [[w|] [pred' fr']] eqn:Eg; cbn [fst snd] in *.
      + (* met at w *)
        inversion H; subst res; clear H. subst pred'. destruct Hres as (Hwp & Hws).
        destruct G as [Gf Gb Gd Gdf Gdb].
        assert (Hall : forall v w0, In v ff -> In w0 (successors g v) -> In w0 (keys (pred ++ ext)) \/ True) by (intros; right; exact I).
        (* the chain of w: w is new, its parent is in the fringe *)
        assert (Hnw : ~ In w (keys pred)) by (intros Hin; apply (Gd w Hin Hws)).
        rewrite keys_app in Hwp. apply in_app_or in Hwp. destruct Hwp as [Hwp|Hwp]; [contradiction|].
        destruct Hx as (Hnd & Hnew & Hpar).
        unfold keys in Hwp. apply in_map_iff in Hwp. destruct Hwp as ([w' p] & Hq & Hin). cbn in Hq. subst w'.
        destruct (Hpar w p Hin) as (u & Hu & -> & Hn).
        destruct (si_chain _ _ _ _ _ Gf u (si_fringe _ _ _ _ _ Gf u Hu)) as (k & Hki & Hc).
        assert (Hnd' : NoDup (keys (pred ++ ext))).
        { rewrite keys_app. apply NoDup_app2; [exact (si_nodup _ _ _ _ _ Gf)|exact Hnd|exact Hnew]. }
        assert (Hcw : chain (pred ++ ext) s w (S k)).
        { eapply chain_step; [|apply chain_ext; exact Hc]. apply aget_nodup; [exact Hnd'|]. apply in_or_app. right. exact Hin. }
        destruct (si_chain _ _ _ _ _ Gb w Hws) as (kb & Hkj & Hcb).
        assert (Hptr' : ptr_ok (flipR Nf) (pred ++ ext)).
        { intros v u' Hg. pose proof (aget_in _ _ _ Hg) as Hin'. apply in_app_or in Hin'. destruct Hin' as [Hin'|Hin'].
          - apply (si_ptr _ _ _ _ _ Gf). rewrite aget_app_old in Hg; [exact Hg|]. change (In (fst (v, Some u')) (map fst pred)). apply in_map. exact Hin'.
          - destruct (Hpar v (Some u') Hin') as (u2 & _ & Hq & Hn2). inversion Hq; subst u2. exact Hn2. }
        exists (S k), kb. split; [exact Hcw|]. split; [exact Hcb|]. split; [exact Hptr'|]. split; [exact (si_ptr _ _ _ _ _ Gb)|].
        split.
        { rewrite length_app_keys. assert (1 <= length (keys ext))%nat.
          { unfold keys. rewrite map_length. destruct ext; [destruct Hin|cbn; lia]. }
          lia. }
        split; [lia|]. split; [exact Hnd'|]. split; [exact (si_nodup _ _ _ _ _ Gb)|].
        split.
        { intros x Hxk. rewrite keys_app in Hxk. apply in_app_or in Hxk. destruct Hxk as [Hxk|Hxk].
          - exact (keys_reach _ _ _ _ _ Gf x Hxk).
          - unfold keys in Hxk. apply in_map_iff in Hxk. destruct Hxk as ([x' p'] & Hq & Hin2). cbn in Hq. subst x'.
            destruct (Hpar x p' Hin2) as (u2 & Hu2 & _ & Hn2).
            destruct (keys_reach _ _ _ _ _ Gf u2 (si_fringe _ _ _ _ _ Gf u2 Hu2)) as (k2 & Hr2). exists (S k2). eapply reach_S; eauto. }
        split; [exact (keys_reach _ _ _ _ _ Gb)|].
        intros L HL. pose proof (no_short_path pred succ ff rf i j (Build_ginv _ _ _ _ _ _ Gf Gb Gd Gdf Gdb) L HL). lia.
      + (* no meeting: one level deeper *)
        subst pred'. destruct G as [Gf Gb Gd Gdf Gdb].
        assert (Hall : forall v w0, In v ff -> In w0 (successors g v) -> In w0 (keys (pred ++ ext))).
        { intros v w0 Hv Hw0. apply (Hres v w0). split; assumption. }
        pose proof (side_extend (successors g) s pred ff i ext Gf Hx Hall) as Gf'.
        rewrite Hk in Gf'.
        destruct fr' as [|x0 fr''].
        { (* empty fringe: the next round gives up *) destruct fuel; cbn [bidir] in H; discriminate. }
        apply (IH (pred ++ ext) succ (x0 :: fr'') rf (S i) j res); [|exact H].
        constructor; [exact Gf'|exact Gb| | |exact Gdb].
        * intros x Hxk. rewrite keys_app in Hxk. apply in_app_or in Hxk. destruct Hxk as [Hxk|Hxk]; [apply Gd; exact Hxk|].
          destruct Hx as (_ & _ & Hpar). unfold keys in Hxk. apply in_map_iff in Hxk. destruct Hxk as ([x' p'] & Hq & Hin2). cbn in Hq. subst x'.
          destruct (Hpar x p' Hin2) as (u2 & Hu2 & _ & Hn2). apply (Hres u2 x). split; assumption.
        * rewrite length_app_keys, Hk. cbn [length]. lia.
    - (* a backward level *)
      rewrite rev_level_gen in H.
      pose proof (gen_level_spec (predecessors g) rf succ pred) as (ext & He & Hk & Hx & Hres).
      destruct (gen_level (predecessors g) rf succ pred) as [[w|] [succ' fr']] eqn:Eg; cbn [fst snd] in *.
      + inversion H; subst res; clear H. subst succ'. destruct Hres as (Hwp & Hws).
        destruct G as [Gf Gb Gd Gdf Gdb].
        assert (Hnw : ~ In w (keys succ)) by (intros Hin; apply (Gd w Hws Hin)).
        rewrite keys_app in Hwp. apply in_app_or in Hwp. destruct Hwp as [Hwp|Hwp]; [contradiction|].
        destruct Hx as (Hnd & Hnew & Hpar).
        unfold keys in Hwp. apply in_map_iff in Hwp. destruct Hwp as ([w' p] & Hq & Hin). cbn in Hq. subst w'.
        destruct (Hpar w p Hin) as (u & Hu & -> & Hn).
        destruct (si_chain _ _ _ _ _ Gb u (si_fringe _ _ _ _ _ Gb u Hu)) as (k & Hki & Hc).
        assert (Hnd' : NoDup (keys (succ ++ ext))).
        { rewrite keys_app. apply NoDup_app2; [exact (si_nodup _ _ _ _ _ Gb)|exact Hnd|exact Hnew]. }
        assert (Hcw : chain (succ ++ ext) t w (S k)).
        { eapply chain_step; [|apply chain_ext; exact Hc]. apply aget_nodup; [exact Hnd'|]. apply in_or_app. right. exact Hin. }
        destruct (si_chain _ _ _ _ _ Gf w Hws) as (kf & Hkj & Hcf).
        assert (Hptr' : ptr_ok (flipR Nb) (succ ++ ext)).
        { intros v u' Hg. pose proof (aget_in _ _ _ Hg) as Hin'. apply in_app_or in Hin'. destruct Hin' as [Hin'|Hin'].
          - apply (si_ptr _ _ _ _ _ Gb). rewrite aget_app_old in Hg; [exact Hg|]. change (In (fst (v, Some u')) (map fst succ)). apply in_map. exact Hin'.
          - destruct (Hpar v (Some u') Hin') as (u2 & _ & Hq & Hn2). inversion Hq; subst u2. exact Hn2. }
        exists kf, (S k). split; [exact Hcf|]. split; [exact Hcw|]. split; [exact (si_ptr _ _ _ _ _ Gf)|]. split; [exact Hptr'|].
        split; [lia|]. split.
        { rewrite length_app_keys. assert (1 <= length (keys ext))%nat.
          { unfold keys. rewrite map_length. destruct ext; [destruct Hin|cbn; lia]. }
          lia. }
        split; [exact (si_nodup _ _ _ _ _ Gf)|]. split; [exact Hnd'|].
        split; [exact (keys_reach _ _ _ _ _ Gf)|].
        split.
        { intros x Hxk. rewrite keys_app in Hxk. apply in_app_or in Hxk. destruct Hxk as [Hxk|Hxk].
          - exact (keys_reach _ _ _ _ _ Gb x Hxk).
          - unfold keys in Hxk. apply in_map_iff in Hxk. destruct Hxk as ([x' p'] & Hq & Hin2). cbn in Hq. subst x'.
            destruct (Hpar x p' Hin2) as (u2 & Hu2 & _ & Hn2).
            destruct (keys_reach _ _ _ _ _ Gb u2 (si_fringe _ _ _ _ _ Gb u2 Hu2)) as (k2 & Hr2). exists (S k2). eapply reach_S; eauto. }
        intros L HL. pose proof (no_short_path pred succ ff rf i j (Build_ginv _ _ _ _ _ _ Gf Gb Gd Gdf Gdb) L HL). lia.
      + subst succ'. destruct G as [Gf Gb Gd Gdf Gdb].
        assert (Hall : forall v w0, In v rf -> In w0 (predecessors g v) -> In w0 (keys (succ ++ ext))).
        { intros v w0 Hv Hw0. apply (Hres v w0). split; assumption. }
        pose proof (side_extend (predecessors g) t succ rf j ext Gb Hx Hall) as Gb'.
        rewrite Hk in Gb'.
        destruct fr' as [|x0 fr''].
        { destruct fuel; cbn [bidir] in H; [discriminate|]. destruct ff'; discriminate. }
        apply (IH pred (succ ++ ext) ff (x0 :: fr'') i (S j) res); [|exact H].
        constructor; [exact Gf|exact Gb'| |exact Gdf|].
        * intros x Hxp Hxk. rewrite keys_app in Hxk. apply in_app_or in Hxk. destruct Hxk as [Hxk|Hxk]; [apply (Gd x Hxp); exact Hxk|].
          destruct Hx as (_ & _ & Hpar). unfold keys in Hxk. apply in_map_iff in Hxk. destruct Hxk as ([x' p'] & Hq & Hin2). cbn in Hq. subst x'.
          destruct (Hpar x p' Hin2) as (u2 & Hu2 & _ & Hn2). destruct (Hres u2 x (conj Hu2 Hn2)) as (_ & Hno). apply Hno. exact Hxp.
        * rewrite length_app_keys, Hk. cbn [length]. lia.
  Qed.

  Lemma last_indep' {A} (l : list A) a b : l <> [] -> last l a = last l b.
  Proof. destruct l as [|x l]; [congruence|]. intros _. apply last_indep. Qed.

  (* ---------------------------------------------------------------- assembling the path *)
  Lemma is_walk_app (R : string -> string -> Prop) l1 x l2 : is_walk R (l1 ++ [x]) -> is_walk R (x :: l2) -> is_walk R (l1 ++ x :: l2).
  Proof.
    induction l1 as [|a l1 IH]; intros H1 H2; [exact H2|]. destruct l1 as [|b l1'].
    - cbn in *. tauto.
    - cbn [app is_walk] in *. destruct H1 as (Hab & H1). split; [exact Hab|]. apply IH; assumption.
  Qed.
  Lemma is_walk_rev (R : string -> string -> Prop) l : is_walk R l -> is_walk (flipR R) (rev l).
  Proof.
    induction l as [|a l IH]; intros H; [exact I|]. destruct l as [|b l'].
    - exact I.
    - cbn [is_walk] in H. destruct H as (Hab & H). specialize (IH H). cbn [rev] in *.
      rewrite <- app_assoc. cbn [app]. apply is_walk_app; [exact IH|]. cbn. split; [exact Hab|exact I].
  Qed.
  Lemma is_walk_mono (R R' : string -> string -> Prop) l : (forall a b, R a b -> R' a b) -> is_walk R l -> is_walk R' l.
  Proof. intros H. induction l as [|a [|b l] IH]; cbn; auto. intros (Hab & Hw). split; [apply H; exact Hab|apply IH; exact Hw]. Qed.
  Lemma last_app_ne {A} (l1 l2 : list A) d : l2 <> [] -> last (l1 ++ l2) d = last l2 d.
  Proof.
    intros Hne. induction l1 as [|a l1 IH]; [reflexivity|]. cbn [app]. destruct (l1 ++ l2) as [|y ys] eqn:Eq.
    - destruct l1; [cbn in Eq; congruence|discriminate].
    - change (last (a :: y :: ys) d) with (last (y :: ys) d). exact IH.
  Qed.
  Lemma hd_rev_last (l : list string) d : l <> [] -> hd_error (rev l) = Some (last l d).
  Proof.
    induction l as [|a l IH]; intros Hne; [congruence|]. destruct l as [|b l'].
    - reflexivity.
    - cbn [rev] in *. specialize (IH ltac:(discriminate)). change (last (a :: b :: l') d) with (last (b :: l') d).
      destruct (rev l' ++ [b]) eqn:Eq; [destruct (rev l'); discriminate|]. cbn in *. exact IH.
  Qed.
  Lemma last_rev_hd (l : list string) a d : hd_error l = Some a -> last (rev l) d = a.
  Proof. destruct l as [|x l]; intros H; [discriminate|]. cbn in H. inversion H; subst. cbn [rev]. rewrite last_app_ne by discriminate. reflexivity. Qed.

  Definition assemble (n : nat) (res : amap * amap * string) : list string :=
    let '(pred, succ, w) := res in
    let back := rev (chase (S n) pred w) in
    match aget w succ with
    | Some (Some nxt) => back ++ chase (S n) succ nxt
    | _ => back
    end.

  Lemma assemble_ok n res : result_ok res ->
    (let '(pred, succ, _) := res in (length (keys pred) <= n /\ length (keys succ) <= n)%nat) ->
    let p := assemble n res in
    is_walk E p /\ hd_error p = Some s /\ last p s = t /\ p <> [] /\ forall L, reach E L s t -> (length p - 1 <= L)%nat.
  Proof.
    destruct res as [[pred succ] w]. intros (kf & kb & Hcf & Hcb & Hpf & Hpb & Hlf & Hlb & _ & _ & _ & _ & Hmin) (Hn1 & Hn2).
    destruct (chase_chain (flipR Nf) pred s Hpf w kf Hcf (S n) ltac:(lia)) as (F1 & F2 & F3 & F4).
    destruct (chase_chain (flipR Nb) succ t Hpb w kb Hcb (S n) ltac:(lia)) as (B1 & B2 & B3 & B4).
    cbv zeta. unfold assemble.
    set (lf := chase (S n) pred w) in *. set (lb := chase (S n) succ w) in *.
    assert (Hlfne : lf <> []) by (intros Eq; rewrite Eq in F1; discriminate).
    (* the forward half, reversed, is a walk from s to w *)
    assert (Wf : is_walk E (rev lf)).
    { apply is_walk_rev in F4. eapply is_walk_mono; [|exact F4]. intros a b Hab. unfold flipR, Nf in Hab. apply succ_iff. exact Hab. }
    assert (Hf_hd : hd_error (rev lf) = Some s) by (rewrite (hd_rev_last lf w Hlfne), F3; reflexivity).
    assert (Hf_last : last (rev lf) s = w) by (apply last_rev_hd; exact F2).
    assert (Wb : is_walk E lb).
    { eapply is_walk_mono; [|exact B4]. intros a b Hab. unfold flipR, Nb in Hab. apply pred_iff in Hab. exact Hab. }
    destruct (chain_inv _ _ _ _ Hcb) as [(-> & Hwt & Hroot)|(u & k & -> & Hv & Hcu)].
    - (* w is t itself *)
      rewrite Hwt, Hroot. rewrite Hwt in Hf_last. split; [exact Wf|]. split; [exact Hf_hd|]. split; [exact Hf_last|]. split; [intros Eq; apply Hlfne; rewrite <- (rev_involutive lf), Eq; reflexivity|].
      intros L HL. specialize (Hmin L HL). rewrite rev_length, F1. lia.
    - rewrite Hv.
      assert (Elb : lb = w :: chase n succ u) by (unfold lb; cbn [chase]; rewrite Hv; reflexivity).
      set (tlb := chase (S n) succ u).
      (* chase with one more unit of fuel gives the same list *)
      destruct (chase_chain (flipR Nb) succ t Hpb u k Hcu (S n) ltac:(lia)) as (U1 & U2 & U3 & U4).
      destruct (chase_chain (flipR Nb) succ t Hpb u k Hcu n ltac:(lia)) as (V1 & V2 & V3 & V4).
      fold tlb in U1, U2, U3, U4.
      assert (Wt : is_walk E tlb).
      { eapply is_walk_mono; [|exact U4]. intros a b Hab. unfold flipR, Nb in Hab. apply pred_iff in Hab. exact Hab. }
      assert (Htne : tlb <> []) by (intros Eq; rewrite Eq in U1; discriminate).
      assert (Hwu : E w u) by (apply pred_iff; apply (Hpb w u Hv)).
      split.
      { assert (Hsplit : exists xs, rev lf = xs ++ [w]).
        { destruct lf as [|x lf']; [congruence|]. cbn in F2. inversion F2; subst x. cbn [rev]. eauto. }
        destruct Hsplit as (xs & Er). rewrite Er in Wf |- *.
        rewrite <- app_assoc. cbn [app]. apply is_walk_app; [exact Wf|].
        destruct tlb as [|y ys]; [congruence|]. cbn in U2. inversion U2; subst y. cbn [is_walk]. split; [exact Hwu|exact Wt]. }
      split.
      { destruct (rev lf) as [|x xs]; [discriminate|]. cbn in *. exact Hf_hd. }
      split.
      { rewrite last_app_ne by exact Htne. rewrite (last_indep' tlb s u Htne). exact U3. }
      split.
      { intros Eq. apply app_eq_nil in Eq. destruct Eq as (_ & Eq). contradiction. }
      intros L HL. specialize (Hmin L HL). rewrite app_length, rev_length, F1, U1. lia.
  Qed.

  (* ---------------------------------------------------------------- one level, as a step of the invariant *)
  Lemma fwd_continue pred succ ff rf i j pred' fr' :
    ginv pred succ ff rf i j -> gen_level (successors g) ff pred succ = (None, (pred', fr')) ->
    (fr' <> [] -> ginv pred' succ fr' rf (S i) j) /\
    (fr' = [] -> forall L, ~ reach E L s t) /\
    length (keys pred') = (length (keys pred) + length fr')%nat.
  Proof.
    intros [Gf Gb Gd Gdf Gdb] Eg.
    pose proof (gen_level_spec (successors g) ff pred succ) as (ext & He & Hk & Hx & Hres). rewrite Eg in *. cbn [fst snd] in *. subst pred'.
    assert (Hall : forall v w0, In v ff -> In w0 (successors g v) -> In w0 (keys (pred ++ ext))).
    { intros v w0 Hv Hw0. apply (Hres v w0). split; assumption. }
    pose proof (side_extend (successors g) s pred ff i ext Gf Hx Hall) as Gf'. rewrite Hk in Gf'.
    split; [|split].
    - intros Hne. constructor; [exact Gf'|exact Gb| | |exact Gdb].
      + intros x Hxk. rewrite keys_app in Hxk. apply in_app_or in Hxk. destruct Hxk as [Hxk|Hxk]; [apply Gd; exact Hxk|].
        destruct Hx as (_ & _ & Hpar). unfold keys in Hxk. apply in_map_iff in Hxk. destruct Hxk as ([x' p'] & Hq & Hin2). cbn in Hq. subst x'.
        destruct (Hpar x p' Hin2) as (u2 & Hu2 & _ & Hn2). apply (Hres u2 x). split; assumption.
      + rewrite length_app_keys, Hk. destruct fr'; [congruence|]. cbn [length]. lia.
    - intros -> L HL. (* pred is closed under successors, so it contains t *)
      assert (ext = []) by (destruct ext; [reflexivity|discriminate]). subst ext. rewrite app_nil_r in *.
      assert (Hcl : forall k x, reach Nf k s x -> In x (keys pred)).
      { apply (closed_reach Nf (fun x => In x (keys pred)) s (si_root _ _ _ _ _ Gf)). intros b c IH Hbc.
        destruct (in_dec string_dec b ff) as [Hf|Hf]; [apply (Hall b c Hf Hbc)|apply (si_closed _ _ _ _ _ Gf b IH Hf c Hbc)]. }
      apply (Gd t); [apply (Hcl L); apply reach_Nf; exact HL|exact (si_root _ _ _ _ _ Gb)].
    - rewrite length_app_keys, Hk. reflexivity.
  Qed.

  Lemma rev_continue pred succ ff rf i j succ' fr' :
    ginv pred succ ff rf i j -> gen_level (predecessors g) rf succ pred = (None, (succ', fr')) ->
    (fr' <> [] -> ginv pred succ' ff fr' i (S j)) /\
    (fr' = [] -> forall L, ~ reach E L s t) /\
    length (keys succ') = (length (keys succ) + length fr')%nat.
  Proof.
    intros [Gf Gb Gd Gdf Gdb] Eg.
    pose proof (gen_level_spec (predecessors g) rf succ pred) as (ext & He & Hk & Hx & Hres). rewrite Eg in *. cbn [fst snd] in *. subst succ'.
    assert (Hall : forall v w0, In v rf -> In w0 (predecessors g v) -> In w0 (keys (succ ++ ext))).
    { intros v w0 Hv Hw0. apply (Hres v w0). split; assumption. }
    pose proof (side_extend (predecessors g) t succ rf j ext Gb Hx Hall) as Gb'. rewrite Hk in Gb'.
    split; [|split].
    - intros Hne. constructor; [exact Gf|exact Gb'| |exact Gdf|].
      + intros x Hxp Hxk. rewrite keys_app in Hxk. apply in_app_or in Hxk. destruct Hxk as [Hxk|Hxk]; [apply (Gd x Hxp); exact Hxk|].
        destruct Hx as (_ & _ & Hpar). unfold keys in Hxk. apply in_map_iff in Hxk. destruct Hxk as ([x' p'] & Hq & Hin2). cbn in Hq. subst x'.
        destruct (Hpar x p' Hin2) as (u2 & Hu2 & _ & Hn2). destruct (Hres u2 x (conj Hu2 Hn2)) as (_ & Hno). apply Hno. exact Hxp.
      + rewrite length_app_keys, Hk. destruct fr'; [congruence|]. cbn [length]. lia.
    - intros -> L HL.
      assert (ext = []) by (destruct ext; [reflexivity|discriminate]). subst ext. rewrite app_nil_r in *.
      assert (Hcl : forall k x, reach Nb k t x -> In x (keys succ)).
      { apply (closed_reach Nb (fun x => In x (keys succ)) t (si_root _ _ _ _ _ Gb)). intros b c IH Hbc.
        destruct (in_dec string_dec b rf) as [Hf|Hf]; [apply (Hall b c Hf Hbc)|apply (si_closed _ _ _ _ _ Gb b IH Hf c Hbc)]. }
      apply (Gd s); [exact (si_root _ _ _ _ _ Gf)|apply (Hcl L); apply reach_Nb; exact HL].
    - rewrite length_app_keys, Hk. reflexivity.
  Qed.

  (* ---------------------------------------------------------------- the node names bound the search *)
  Hypothesis ends : forall e, In e (g_edges g) -> has_node g (e_src e) = true /\ has_node g (e_dst e) = true.
  Hypothesis s_node : has_node g s = true.
  Hypothesis t_node : has_node g t = true.
  Let n := length (g_nodes g).

  Lemma has_node_name x : has_node g x = true -> In x (map n_name (g_nodes g)).
  Proof.
    unfold has_node, find_node. destruct (find _ (g_nodes g)) as [nd|] eqn:F; [|discriminate]. intros _.
    apply find_some in F. destruct F as (Hin & Hq). apply str_eqb_eq in Hq. rewrite <- Hq. apply in_map. exact Hin.
  Qed.
  Lemma reach_node_f k x : reach Nf k s x -> has_node g x = true.
  Proof.
    apply (closed_reach Nf (fun x => has_node g x = true) s s_node). intros b c _ Hbc.
    apply succ_iff in Hbc. destruct Hbc as (e & He & _ & <-). apply (ends e He).
  Qed.
  Lemma reach_node_b k x : reach Nb k t x -> has_node g x = true.
  Proof.
    apply (closed_reach Nb (fun x => has_node g x = true) t t_node). intros b c _ Hbc.
    apply pred_iff in Hbc. destruct Hbc as (e & He & <- & _). apply (ends e He).
  Qed.

  Lemma ginv_size pred succ ff rf i j : ginv pred succ ff rf i j -> (length (keys pred) + length (keys succ) <= n)%nat.
  Proof.
    intros [Gf Gb Gd _ _]. rewrite <- app_length. unfold n. rewrite <- (map_length n_name (g_nodes g)).
    apply NoDup_incl_length.
    - apply NoDup_app2; [exact (si_nodup _ _ _ _ _ Gf)|exact (si_nodup _ _ _ _ _ Gb)|]. intros x Hs Hp. exact (Gd x Hp Hs).
    - intros x Hx. apply in_app_or in Hx. apply has_node_name. destruct Hx as [Hx|Hx].
      + destruct (keys_reach _ _ _ _ _ Gf x Hx) as (k & Hr). exact (reach_node_f k x Hr).
      + destruct (keys_reach _ _ _ _ _ Gb x Hx) as (k & Hr). exact (reach_node_b k x Hr).
  Qed.

  Theorem bidir_complete : forall fuel pred succ ff rf i j L,
    ginv pred succ ff rf i j -> ff <> [] -> rf <> [] -> reach E L s t ->
    (n - (length (keys pred) + length (keys succ)) < fuel)%nat ->
    bidir fuel g pred succ ff rf <> None.
  Proof.
    induction fuel as [|fuel IH]; intros pred succ ff rf i j L G Hff Hrf HL Hfuel; [lia|]. cbn [bidir].
    destruct ff as [|f0 ff']; [congruence|]. destruct rf as [|r0 rf']; [congruence|].
    set (ff := f0 :: ff') in *. set (rf := r0 :: rf') in *.
    pose proof (ginv_size _ _ _ _ _ _ G) as Hsz.
    destruct (Nat.leb (length ff) (length rf)).
    - rewrite fwd_level_gen. destruct (gen_level (successors g) ff pred succ) as [[w|] [pred' fr']] eqn:Eg; [discriminate|].
      destruct (fwd_continue _ _ _ _ _ _ _ _ G Eg) as (Hc & He & Hlen).
      destruct fr' as [|x0 fr'']; [exfalso; exact (He eq_refl L HL)|].
      specialize (Hc ltac:(discriminate)).
      apply (IH _ _ _ _ _ _ L Hc ltac:(discriminate) Hrf HL). pose proof (ginv_size _ _ _ _ _ _ Hc). cbn [length] in Hlen. lia.
    - rewrite rev_level_gen. destruct (gen_level (predecessors g) rf succ pred) as [[w|] [succ' fr']] eqn:Eg; [discriminate|].
      destruct (rev_continue _ _ _ _ _ _ _ _ G Eg) as (Hc & He & Hlen).
      destruct fr' as [|x0 fr'']; [exfalso; exact (He eq_refl L HL)|].
      specialize (Hc ltac:(discriminate)).
      apply (IH _ _ _ _ _ _ L Hc Hff ltac:(discriminate) HL). pose proof (ginv_size _ _ _ _ _ _ Hc). cbn [length] in Hlen. lia.
  Qed.

  Lemma ginv_init : s <> t -> ginv [(s, None)] [(t, None)] [s] [t] 0 0.
  Proof.
    intros Hne. constructor; [apply side_init|apply side_init| |cbn; lia|cbn; lia].
    intros x [<-|[]] [Hq|[]]. apply Hne. symmetry. exact Hq.
  Qed.

  Lemma result_sizes res : result_ok res ->
    let '(pred, succ, _) := res in (length (keys pred) <= n /\ length (keys succ) <= n)%nat.
  Proof.
    destruct res as [[pred succ] w]. intros (kf & kb & _ & _ & _ & _ & _ & _ & Hn1 & Hn2 & Hr1 & Hr2 & _).
    unfold n. rewrite <- (map_length n_name (g_nodes g)). split; apply NoDup_incl_length; try assumption.
    - intros x Hx. apply has_node_name. destruct (Hr1 x Hx) as (k & Hr). exact (reach_node_f k x Hr).
    - intros x Hx. apply has_node_name. destruct (Hr2 x Hx) as (k & Hr). exact (reach_node_b k x Hr).
  Qed.
End Nx.

(* ------------------------------------------------------------------ the oracle contract of sp_nx *)
Definition gE (g : graph) := E g.

Lemma sp_nx_unfold g s t : has_node g s = true -> has_node g t = true -> s <> t ->
  sp_nx g s t = option_map (assemble (length (g_nodes g)))
                           (bidir (2 * S (length (g_nodes g))) g [(s, None)] [(t, None)] [s] [t]).
Proof.
  intros Hs Ht Hne. unfold sp_nx. rewrite Hs, Ht. cbn [andb negb].
  destruct (str_eqb s t) eqn:Eq; [apply str_eqb_eq in Eq; contradiction|].
  destruct (bidir _ g _ _ _ _) as [[[pred succ] w]|]; [|reflexivity]. cbn [option_map assemble].
  destruct (aget w succ) as [[nxt|]|]; reflexivity.
Qed.

Section Contract.
  Variable g : graph.
  Hypothesis ends : forall e, In e (g_edges g) -> has_node g (e_src e) = true /\ has_node g (e_dst e) = true.
  Variable t : string.
  Hypothesis t_node : has_node g t = true.
  Let n := length (g_nodes g).

  Theorem sp_nx_spec s p : sp_nx g s t = Some p ->
    path_to_t (E g) t p s /\ (forall q, path_to_t (E g) t q s -> (length p <= length q)%nat) /\ (length p <= 2 * S n)%nat.
  Proof.
    intros H. assert (Hs : has_node g s = true).
    { unfold sp_nx in H. destruct (has_node g s); [reflexivity|discriminate]. }
    destruct (string_dec s t) as [->|Hne].
    - unfold sp_nx in H. rewrite t_node in H. cbn in H. rewrite (proj2 (str_eqb_eq t t) eq_refl) in H. inversion H; subst p.
      split; [repeat split; cbn; auto; discriminate|]. split; [|cbn; lia].
      intros q (_ & _ & _ & Hq). destruct q; [congruence|cbn; lia].
    - rewrite (sp_nx_unfold g s t Hs t_node Hne) in H.
      destruct (bidir _ g _ _ _ _) as [res|] eqn:Eb; [|discriminate]. cbn in H. inversion H; subst p; clear H.
      pose proof (bidir_ok g s t _ _ _ _ _ 0%nat 0%nat res (ginv_init g s t Hs t_node Hne) Eb) as Hres.
      pose proof (result_sizes g s t ends Hs t_node res Hres) as Hsz.
      destruct (assemble_ok g s t (length (g_nodes g)) res Hres Hsz) as (A1 & A2 & A3 & A4 & A5).
      split; [repeat split; assumption|]. split.
      + intros q (Q1 & Q2 & Q3 & Q4). pose proof (reach_of_walk g q s t Q1 Q2 Q3) as Hr. specialize (A5 _ Hr).
        destruct q; [congruence|]. cbn [length] in *. lia.
      + destruct res as [[pred succ] w]. destruct Hres as (kf & kb & Hcf & Hcb & Hpf & Hpb & Hlf & Hlb & _).
        destruct Hsz as (S1 & S2). unfold assemble.
        destruct (chase_chain (flipR (fun v w0 => In w0 (successors g v))) pred s Hpf w kf Hcf (S (length (g_nodes g))) ltac:(lia)) as (F1 & _).
        destruct (chain_inv _ _ _ _ Hcb) as [(-> & Hwt & Hroot)|(u & k & -> & Hv & Hcu)].
        * rewrite Hwt, Hroot in *. rewrite rev_length, F1. fold n in S1, S2 |- *. lia.
        * rewrite Hv.
          destruct (chase_chain (flipR (fun v w0 => In w0 (predecessors g v))) succ t Hpb u k Hcu (S (length (g_nodes g))) ltac:(lia)) as (U1 & _).
          rewrite app_length, rev_length, F1, U1. fold n in S1, S2 |- *. lia.
  Qed.

  Theorem sp_nx_complete s q : path_to_t (E g) t q s -> sp_nx g s t <> None.
  Proof.
    intros (Q1 & Q2 & Q3 & Q4).
    assert (Hs : has_node g s = true).
    { destruct q as [|a [|b q']]; [congruence| |].
      - cbn in Q2, Q3. inversion Q2; subst a. subst t. exact t_node.
      - cbn in Q2. inversion Q2; subst a. cbn [is_walk] in Q1. destruct Q1 as ((e & He & <- & _) & _). apply (ends e He). }
    destruct (string_dec s t) as [->|Hne].
    - unfold sp_nx. rewrite t_node. cbn. rewrite (proj2 (str_eqb_eq t t) eq_refl). discriminate.
    - rewrite (sp_nx_unfold g s t Hs t_node Hne).
      pose proof (reach_of_walk g q s t Q1 Q2 Q3) as Hr.
      pose proof (bidir_complete g s t ends Hs t_node (2 * S (length (g_nodes g))) _ _ _ _ 0%nat 0%nat _ (ginv_init g s t Hs t_node Hne)
                    ltac:(discriminate) ltac:(discriminate) Hr ltac:(cbn [keys map length]; lia)) as Hb.
      destruct (bidir _ g _ _ _ _); [discriminate|congruence].
  Qed.
End Contract.
