(* TableProofs.v — C03 on the model: indexing of the two-dimensional source-routing table.  The hardware
   selects RoutingTables[row = the source's enumeration value][column = the destination identity]; a '{...}
   literal lists index N-1 first.  Rows and columns are emitted sorted by identity, descending; identities
   are exactly 0..N-1 (C07_model_holds), so entry [row][col] is the route from the interface with identity
   `row` to the interface with identity `col`. *)
From FV Require Import Base AddrRange Graph Desc Build Netlist Compile Routing Emit Hw ModelBase BuildProofs ModelProofs IdProofs.
From Coq Require Import ZifyBool Sorting.Sorted.

Section SortKey.
  Context {A : Type} (key : A -> Z).
  Let lt (a b : A) : bool := key a <? key b.
  Let le (a b : A) : Prop := key a <= key b.

  Lemma insert_by_sorted x l : StronglySorted le l -> StronglySorted le (insert_by lt x l).
  Proof.
    induction 1 as [|y ys Hs IH Hall]; cbn [insert_by]; [constructor; constructor|].
    unfold lt at 1. destruct (key y <? key x) eqn:E.
    - constructor; [exact IH|]. apply Forall_forall. intros z Hz. apply insert_by_In in Hz. destruct Hz as [->|Hz].
      + unfold le. lia.
      + rewrite Forall_forall in Hall. apply Hall. exact Hz.
    - constructor; [constructor; assumption|]. constructor; [unfold le; lia|].
      rewrite Forall_forall in *. intros z Hz. specialize (Hall z Hz). unfold le in *. lia.
  Qed.

  Lemma sort_by_sorted l : StronglySorted le (sort_by lt l).
  Proof. unfold sort_by. induction l as [|x xs IH]; cbn; [constructor|]. apply insert_by_sorted. exact IH. Qed.

  Lemma insert_by_perm_keys x l : forall k, In k (map key (insert_by lt x l)) <-> In k (map key (x :: l)).
  Proof.
    intros k. rewrite !in_map_iff. split; intros (y & Hy & Hin); exists y; (split; [exact Hy|]).
    - apply insert_by_In in Hin. cbn. destruct Hin as [->|Hin]; auto.
    - apply insert_by_In. cbn in Hin. destruct Hin as [->|Hin]; auto.
  Qed.

  Lemma insert_by_nodup_keys x l : NoDup (map key (x :: l)) -> NoDup (map key (insert_by lt x l)).
  Proof.
    induction l as [|y ys IH]; cbn [insert_by]; intros H; [exact H|].
    unfold lt at 1. destruct (key y <? key x); [|exact H].
    cbn [map] in *. inversion H as [|? ? Hx Hrest]; subst. inversion Hrest as [|? ? Hy Hys]; subst.
    constructor.
    - intros Hin. apply (insert_by_perm_keys x ys) in Hin. cbn in Hin. destruct Hin as [Hin|Hin]; [apply Hx; left; auto|contradiction].
    - apply IH. constructor; [intros Hin; apply Hx; right; exact Hin|exact Hys].
  Qed.

  Lemma sort_by_nodup_keys l : NoDup (map key l) -> NoDup (map key (sort_by lt l)).
  Proof.
    unfold sort_by. induction l as [|x xs IH]; cbn; intros H; [constructor|]. inversion H; subst.
    apply insert_by_nodup_keys. cbn. constructor; [|apply IH; assumption].
    intros Hin. apply in_map_iff in Hin. destruct Hin as (y & Hy & Hyin). apply sort_by_In in Hyin. apply H2. rewrite <- Hy. apply in_map. exact Hyin.
  Qed.

  (* a strictly increasing list of N keys inside [0, N) is 0, 1, ..., N-1 *)
  Lemma sorted_dense : forall l, StronglySorted le l -> NoDup (map key l) ->
    forall lo, (forall x, In x l -> lo <= key x < lo + Z.of_nat (length l)) ->
    forall i x, nth_error l i = Some x -> key x = lo + Z.of_nat i.
  Proof.
    induction l as [|a l IH]; intros Hs Hnd lo Hr i x Hi; [destruct i; discriminate|].
    inversion Hs as [|? ? Hs' Hall]; subst. cbn [map] in Hnd. inversion Hnd as [|? ? Ha Hnd']; subst.
    rewrite Forall_forall in Hall.
    (* every later key is strictly larger than key a *)
    assert (Hgt : forall y, In y l -> key a < key y).
    { intros y Hy. specialize (Hall y Hy). unfold le in Hall. assert (key a <> key y); [|lia].
      intros Heq. apply Ha. rewrite Heq. apply in_map. exact Hy. }
    (* hence the tail lives in [lo+1, lo+1+|l|), and key a = lo *)
    assert (Hlo : key a = lo).
    { pose proof (Hr a (or_introl eq_refl)) as Hra. cbn [length] in Hra.
      destruct (Z.eq_dec (key a) lo) as [|Hne]; [assumption|exfalso].
      (* all |l|+1 keys lie in [lo+1, lo+|l|+1): pigeonhole *)
      assert (Hincl : incl (map key (a :: l)) (map (fun k => lo + 1 + Z.of_nat k) (seq 0 (length l)))).
      { intros k Hk. cbn [map] in Hk. destruct Hk as [<-|Hk].
        - apply in_map_iff. exists (Z.to_nat (key a - lo - 1)). split; [lia|]. apply in_seq. lia.
        - apply in_map_iff in Hk. destruct Hk as (y & <- & Hy). pose proof (Hgt y Hy). pose proof (Hr y (or_intror Hy)) as Hry.
          cbn [length] in Hry. apply in_map_iff. exists (Z.to_nat (key y - lo - 1)). split; [lia|]. apply in_seq. lia. }
      pose proof (NoDup_incl_length Hnd Hincl) as Hlen. cbn [map length] in Hlen. rewrite !map_length, seq_length in Hlen. lia. }
    destruct i as [|i]; cbn in Hi.
    - inversion Hi; subst. lia.
    - rewrite (IH Hs' Hnd' (lo + 1)) with (i := i) (x := x); [lia| |exact Hi].
      intros y Hy. pose proof (Hgt y Hy). pose proof (Hr y (or_intror Hy)) as Hry. cbn [length] in Hry. lia.
  Qed.
End SortKey.

Lemma rev_nth_error {A} (l : list A) i : (i < length l)%nat -> nth_error (rev l) i = nth_error l (length l - 1 - i).
Proof.
  intros Hi. destruct (nth_error l (length l - 1 - i)) as [x|] eqn:E.
  - rewrite (nth_error_nth' (rev l) x) by (rewrite rev_length; lia). rewrite rev_nth by lia.
    rewrite (nth_error_nth' l x) in E by lia. replace (length l - S i)%nat with (length l - 1 - i)%nat by lia. exact E.
  - apply nth_error_None in E. lia.
Qed.

(* entry k (from the hardware's point of view: index k of a '{...} literal written highest index first) of a
   list emitted "sorted by key, descending" is the element with key k, when the keys are exactly 0..N-1 *)
Lemma by_id_desc_index {T} (key : T -> Z) (l : list T) k x :
  NoDup (map key l) -> (forall y, In y l -> 0 <= key y < Z.of_nat (length l)) ->
  (k < length l)%nat ->
  nth_error (by_id_desc key l) (length l - 1 - k) = Some x -> key x = Z.of_nat k.
Proof.
  intros Hnd Hr Hk H. unfold by_id_desc in H.
  set (s := sort_by (fun a b => key a <? key b) l) in *.
  assert (Hls : length s = length l) by apply sort_by_length.
  rewrite rev_nth_error in H by (rewrite Hls; lia). rewrite Hls in H. replace (length l - 1 - (length l - 1 - k))%nat with k in H by lia.
  pose proof (sorted_dense key s (sort_by_sorted key l) (sort_by_nodup_keys key l Hnd) 0) as Hd.
  rewrite (Hd ltac:(intros y Hy; rewrite Hls; apply Hr; apply sort_by_In in Hy; exact Hy) k x H). lia.
Qed.

(* ------------------------------------------------------------------ RoutingTables[row][col] *)
From FV Require Import RouteMap Check CheckProofs PathProofs HwProofs WireProofs.

Lemma gen_route_id sp c s t i r : gen_route sp c s t = Ok (i, r) -> id_num (cn_id t) = Ok i.
Proof.
  unfold gen_route. intros H. inv_bind H.
  destruct (str_eqb _ _ || _ || _); [inversion H; subst; exact E|].
  destruct (sp _ _ _) as [[|? ?]|]; try discriminate. inv_bind H. inversion H; subst. exact E.
Qed.

Section Table.
  Variables (sp : oracle) (d : desc) (g : graph) (c : compiled) (ri : rinfo) (n : netlist).
  Hypothesis Hb : build d = Ok g.
  Hypothesis Hc : compile d g = Ok c.
  Hypothesis Hri : gen_routing_info sp c = Ok ri.
  Hypothesis He : emit c ri = Ok n.
  Hypothesis Halgo : d_algo d = SRC.

  Let N := length (c_nis c).
  Let Hcd : c_desc c = d := proj1 (compile_desc d g c Hc).
  Let Hxy : d_algo d <> XY.
  Proof. rewrite Halgo. discriminate. Qed.

  Lemma ni_key_uid x : In x (c_nis c) -> ni_key x = cn_uid x.
  Proof. intros Hx. unfold ni_key. rewrite (ids_are_uids d g c Hc Hxy x Hx). reflexivity. Qed.

  (* the rows: row k is the interface with identity k *)
  Lemma row_index s0 : In s0 (c_nis c) ->
    nth_error (by_id_desc ni_key (c_nis c)) (N - 1 - Z.to_nat (cn_uid s0)) = Some s0.
  Proof.
    intros Hs0. pose proof (uids_range d g c Hb Hc s0 Hs0) as Hr. fold N in Hr.
    assert (Hk : (Z.to_nat (cn_uid s0) < N)%nat) by lia.
    assert (Hlen : length (by_id_desc ni_key (c_nis c)) = N) by (unfold by_id_desc; rewrite rev_length, sort_by_length; reflexivity).
    destruct (nth_error (by_id_desc ni_key (c_nis c)) (N - 1 - Z.to_nat (cn_uid s0))) as [x|] eqn:E;
      [|apply nth_error_None in E; lia].
    assert (Hnd : NoDup (map ni_key (c_nis c))).
    { rewrite (map_ext_in ni_key cn_uid) by (intros a Ha; apply ni_key_uid; exact Ha). exact (uids_distinct d g c Hb Hc). }
    assert (Hrange : forall y, In y (c_nis c) -> 0 <= ni_key y < Z.of_nat (length (c_nis c))).
    { intros y Hy. rewrite (ni_key_uid y Hy). apply (uids_range d g c Hb Hc y Hy). }
    pose proof (by_id_desc_index ni_key (c_nis c) (Z.to_nat (cn_uid s0)) x Hnd Hrange Hk E) as Hkey.
    assert (Hxin : In x (c_nis c)).
    { apply nth_error_In in E. unfold by_id_desc in E. apply in_rev in E. apply sort_by_In in E. exact E. }
    f_equal. eapply (NoDup_map_eq cn_uid (c_nis c)); [exact (uids_distinct d g c Hb Hc)|exact Hxin|exact Hs0|].
    rewrite <- (ni_key_uid x Hxin). lia.
  Qed.

  (* the routes of one source: one entry per interface, keyed by its identity *)
  Lemma routes_of_src s0 : In s0 (c_nis c) ->
    exists rs, routes_of ri s0 = rs /\ mapM (gen_route sp c s0) (c_nis c) = Ok rs.
  Proof.
    intros Hs0. destruct (gri_inv _ _ _ Hri) as (_ & _ & _ & _ & Hroutes & _).
    specialize (Hroutes ltac:(rewrite Hcd; exact Halgo)).
    destruct (mapM_In_l _ _ _ _ Hroutes Hs0) as (e & Hein & Ee). inv_bind Ee. inversion Ee; subst e; clear Ee.
    exists a. split; [|exact E]. unfold routes_of.
    assert (Hkeys : map fst (ri_routes ri) = map cn_name (c_nis c)).
    { eapply mapM_keys; [exact Hroutes|]. intros x y Hy. cbv beta in Hy. inv_bind Hy. inversion Hy. reflexivity. }
    assert (Hnd' : NoDup (map fst (ri_routes ri))) by (rewrite Hkeys; exact (nis_nodup d g c Hb Hc)).
    pose proof (find_key_unique fst (ri_routes ri) (cn_name s0, a) Hnd' Hein) as Hf. cbn [fst] in Hf. rewrite Hf. reflexivity.
  Qed.

  Lemma routes_keys s0 rs : mapM (gen_route sp c s0) (c_nis c) = Ok rs -> map fst rs = map cn_uid (c_nis c).
  Proof.
    intros H. assert (G : forall l l', Forall2 (fun t r => gen_route sp c s0 t = Ok r) l l' -> (forall t, In t l -> In t (c_nis c)) ->
                           map fst l' = map cn_uid l).
    { intros l l' HF. induction HF as [|t r l l' Htr _ IH]; intros Hsub; cbn; [reflexivity|].
      rewrite IH by (intros; apply Hsub; right; assumption). f_equal. destruct r as [i rt].
      apply gen_route_id in Htr. rewrite (ids_are_uids d g c Hc Hxy t (Hsub t (or_introl eq_refl))) in Htr. cbn in Htr. inversion Htr. reflexivity. }
    apply (G _ _ (mapM_Forall2 _ _ _ H)). auto.
  Qed.

  (* C03: the entry the hardware reads for (source s0, destination t) is the word generated for that pair *)
  Theorem table_word_spec s0 t i r :
    In s0 (c_nis c) -> In t (c_nis c) -> gen_route sp c s0 t = Ok (i, r) ->
    table_word n (cn_uid s0) (cn_uid t) = Some (emit_word (ri_route_bits ri) (i, r)).
  Proof.
    intros Hs0 Ht Hgr.
    destruct (emit_inv _ _ _ He) as (_ & axi & rts & _ & _ & Hn). unfold table_word. rewrite Hn. cbn [n_tables n_nis].
    rewrite Hcd, Halgo. unfold emit_tables. rewrite map_length. fold N.
    assert (Hlen : length (by_id_desc ni_key (c_nis c)) = N) by (unfold by_id_desc; rewrite rev_length, sort_by_length; reflexivity).
    pose proof (uids_range d g c Hb Hc s0 Hs0) as Hr0. pose proof (uids_range d g c Hb Hc t Ht) as Hrt. fold N in Hr0, Hrt.
    destruct ((cn_uid s0 <? 0) || (Z.of_nat N <=? cn_uid s0)) eqn:E1; [lia|].
    replace (Z.to_nat (Z.of_nat N - 1 - cn_uid s0)) with (N - 1 - Z.to_nat (cn_uid s0))%nat by lia.
    rewrite nth_error_map, (row_index s0 Hs0). cbn [option_map].
    destruct (routes_of_src s0 Hs0) as (rs & -> & Hrs).
    pose proof (routes_keys s0 rs Hrs) as Hkeys. pose proof (mapM_length _ _ _ Hrs) as Hlrs. fold N in Hlrs.
    assert (Hlen2 : length (by_id_desc (fun r0 : Z * option (list (Z * Z)) => fst r0) rs) = N)
      by (unfold by_id_desc; rewrite rev_length, sort_by_length; exact Hlrs).
    destruct ((cn_uid t <? 0) || (Z.of_nat N <=? cn_uid t)) eqn:E2; [lia|].
    replace (Z.to_nat (Z.of_nat N - 1 - cn_uid t)) with (N - 1 - Z.to_nat (cn_uid t))%nat by lia.
    rewrite nth_error_map.
    destruct (nth_error (by_id_desc (fun r0 : Z * option (list (Z * Z)) => fst r0) rs) (N - 1 - Z.to_nat (cn_uid t))) as [e|] eqn:Ee;
      [|apply nth_error_None in Ee; lia].
    cbn [option_map]. f_equal. f_equal.
    assert (Hnd : NoDup (map fst rs)) by (rewrite Hkeys; exact (uids_distinct d g c Hb Hc)).
    assert (Hrange : forall y, In y rs -> 0 <= fst y < Z.of_nat (length rs)).
    { intros y Hy. apply (in_map fst) in Hy. rewrite Hkeys in Hy. apply in_map_iff in Hy. destruct Hy as (x & <- & Hx).
      rewrite Hlrs. apply (uids_range d g c Hb Hc x Hx). }
    rewrite <- Hlrs in Ee.
    pose proof (by_id_desc_index (fun r0 : Z * option (list (Z * Z)) => fst r0) rs (Z.to_nat (cn_uid t)) e Hnd Hrange ltac:(lia) Ee) as Hkey.
    (* the entry generated for t is in rs and has the same key *)
    destruct (mapM_In_l _ _ _ _ Hrs Ht) as (e' & He'in & He'). rewrite Hgr in He'. inversion He'; subst e'.
    assert (Hein : In e rs).
    { apply nth_error_In in Ee. unfold by_id_desc in Ee. apply in_rev in Ee. apply sort_by_In in Ee. exact Ee. }
    assert (Hi : i = cn_uid t).
    { apply gen_route_id in Hgr. rewrite (ids_are_uids d g c Hc Hxy t Ht) in Hgr. cbn in Hgr. inversion Hgr. reflexivity. }
    eapply (NoDup_map_eq fst rs); [exact Hnd|exact Hein|exact He'in|]. cbn [fst]. lia.
  Qed.
End Table.
