(* BuildProofs.v — invariants of every graph that Build.build produces, for any description:
   every link has a mirror link (reverse direction, swapped port directions), and both ends of every
   edge are nodes of the graph. *)
From FV Require Import Base Graph Desc Build ModelBase.
From Coq Require Import ZifyBool.

Definition mirror_of (e e' : edge) : Prop :=
  e_src e' = e_dst e /\ e_dst e' = e_src e /\ is_link e' = true /\
  e_src_dir e' = e_dst_dir e /\ e_dst_dir e' = e_src_dir e.

Definition sym (g : graph) : Prop :=
  forall e, In e (g_edges g) -> is_link e = true -> exists e', In e' (g_edges g) /\ mirror_of e e'.
Definition ends_exist (g : graph) : Prop :=
  forall e, In e (g_edges g) -> has_node g (e_src e) = true /\ has_node g (e_dst e) = true.
Definition ginv (g : graph) : Prop := sym g /\ ends_exist g.

Lemma ginv_empty : ginv g_empty.
Proof. split; intros e []. Qed.

Lemma foldM_inv {A S} (P : S -> Prop) (f : S -> A -> res S) l :
  (forall s x s', P s -> f s x = Ok s' -> P s') ->
  forall s s', P s -> foldM f l s = Ok s' -> P s'.
Proof.
  intros Hf. induction l as [|x xs IH]; cbn [foldM]; intros s s' Hs H.
  - inversion H; subst; exact Hs.
  - inv_bind H. eapply IH; [|exact H]. eapply Hf; eauto.
Qed.

Lemma has_node_app g n x : has_node g x = true ->
  has_node {| g_nodes := g_nodes g ++ [n]; g_edges := g_edges g |} x = true.
Proof.
  unfold has_node, find_node. cbn. intros H. destruct (find _ (g_nodes g)) as [y|] eqn:F; [|discriminate].
  clear H. induction (g_nodes g) as [|z zs IH]; cbn in *; [discriminate|].
  destruct (str_eqb (n_name z) x); [reflexivity|]. apply IH. exact F.
Qed.

Lemma ginv_add_node g n g' : ginv g -> add_node g n = Ok g' -> ginv g'.
Proof.
  intros (Hs & He) H. unfold add_node in H. destruct (has_node g (n_name n)); [discriminate|].
  inversion H; subst; clear H. split.
  - exact Hs.
  - intros e Hin. cbn in Hin. destruct (He e Hin). split; apply has_node_app; assumption.
Qed.

Lemma add_edge_spec g e g' : add_edge g e = Ok g' ->
  g' = {| g_nodes := g_nodes g; g_edges := g_edges g ++ [e] |} /\
  has_node g (e_src e) = true /\ has_node g (e_dst e) = true.
Proof.
  unfold add_edge. destruct (has_edge _ _ _); [discriminate|].
  destruct (has_node g (e_src e)), (has_node g (e_dst e)); cbn; try discriminate.
  intros H; inversion H; auto.
Qed.

Lemma ends_add_edge g e g' : ends_exist g -> add_edge g e = Ok g' -> ends_exist g'.
Proof.
  intros He H. apply add_edge_spec in H. destruct H as (-> & H1 & H2).
  intros x Hin. cbn in Hin. apply in_app_iff in Hin. destruct Hin as [Hin|[<-|[]]].
  - destruct (He x Hin). auto.
  - auto.
Qed.

Lemma ginv_add_prot g u v g' : ginv g -> add_edge g (prot_edge u v) = Ok g' -> ginv g'.
Proof.
  intros (Hs & He) H. split; [|eapply ends_add_edge; eauto].
  apply add_edge_spec in H. destruct H as (-> & _).
  intros e Hin Hl. cbn in Hin. apply in_app_iff in Hin. destruct Hin as [Hin|[<-|[]]]; [|discriminate].
  destruct (Hs e Hin Hl) as (e' & He' & Hm). exists e'. split; [cbn; apply in_app_iff; auto|exact Hm].
Qed.

(* adding a link and then its mirror *)
Lemma ginv_add_pair g u v sd dd g1 g2 : ginv g ->
  add_edge g (mk_link u v sd dd) = Ok g1 -> add_edge g1 (mk_link v u dd sd) = Ok g2 -> ginv g2.
Proof.
  intros (Hs & He) H1 H2. split; [|eapply ends_add_edge; [eapply ends_add_edge|]; eauto].
  apply add_edge_spec in H1. destruct H1 as (-> & _). apply add_edge_spec in H2. destruct H2 as (-> & _).
  intros e Hin Hl. cbn in Hin |- *. rewrite !in_app_iff in Hin. destruct Hin as [[Hin|[<-|[]]]|[<-|[]]].
  - destruct (Hs e Hin Hl) as (e' & He' & Hm). exists e'. split; [rewrite !in_app_iff; auto|exact Hm].
  - exists (mk_link v u dd sd). split; [rewrite !in_app_iff; cbn; auto|]. unfold mirror_of; cbn; auto.
  - exists (mk_link u v sd dd). split; [rewrite !in_app_iff; cbn; auto|]. unfold mirror_of; cbn; auto.
Qed.

Lemma ginv_array_node name t desc connect n g ij g' :
  ginv g -> add_array_node name t desc connect n g ij = Ok g' -> ginv g'.
Proof.
  intros Hg H. unfold add_array_node in H. destruct ij as [i j]. inv_bind H.
  apply ginv_add_node in E; [|exact Hg].
  assert (Ha0 : ginv a0).
  { destruct ((0 <? i) && connect); [|inversion E0; subst; exact E].
    inv_bind E0. eapply ginv_add_pair; eauto. }
  destruct ((0 <? j) && connect); [|inversion H; subst; exact Ha0].
  inv_bind H. eapply ginv_add_pair; eauto.
Qed.

Lemma ginv_array g name arr t desc connect g' :
  ginv g -> add_nodes_as_array g name arr t desc connect = Ok g' -> ginv g'.
Proof.
  intros Hg H. unfold add_nodes_as_array in H.
  destruct arr as [|m [|n [|x xs]]]; [discriminate| | |discriminate].
  - destruct connect; [discriminate|]. eapply foldM_inv; [|exact Hg|exact H].
    intros s x s' Hs Hx; cbv beta in Hx. eapply ginv_add_node; eauto.
  - eapply foldM_inv; [|exact Hg|exact H]. intros s x s' Hs Hx; cbv beta in Hx. eapply ginv_array_node; eauto.
Qed.

Lemma ginv_tree tree : forall g parent lvl desc connect g',
  ginv g -> add_nodes_as_tree g parent tree lvl desc connect = Ok g' -> ginv g'.
Proof.
  induction tree as [|t rest IH]; intros g parent lvl desc connect g' Hg H; cbn [add_nodes_as_tree] in H.
  - inversion H; subst; exact Hg.
  - eapply foldM_inv; [|exact Hg|exact H]. intros s i s' Hs Hx. inv_bind Hx.
    apply ginv_add_node in E; [|exact Hs].
    assert (Ha0 : ginv a0).
    { destruct (connect && (0 <? lvl)); [|inversion E0; subst; exact E].
      inv_bind E0. eapply ginv_add_pair; eauto. }
    eapply IH; eauto.
Qed.

Lemma ginv_router g r g' : ginv g -> create_router g r = Ok g' -> ginv g'.
Proof.
  intros Hg H. unfold create_router in H.
  destruct (rt_array r) as [[|m [|n [|x xs]]]|], (rt_tree r) as [tree|]; try discriminate.
  - eapply ginv_array; eauto.
  - eapply ginv_tree; eauto.
  - eapply ginv_add_node; eauto.
Qed.

Lemma ginv_endpoint g e g' : ginv g -> create_endpoint g e = Ok g' -> ginv g'.
Proof.
  intros Hg H. unfold create_endpoint in H. cbv zeta in H. destruct (ep_array e) as [arr|].
  - inv_bind H. apply ginv_array in E; [|exact Hg]. apply ginv_array in E0; [|exact E].
    assert (Ha1 : ginv a1).
    { destruct (ep_is_sbr e); [|inversion E1; subst; exact E0].
      eapply foldM_inv; [|exact E0|exact E1]. intros s i s' Hs Hx; cbv beta in Hx. eapply ginv_add_prot; eauto. }
    destruct (ep_is_mgr e); [|inversion H; subst; exact Ha1].
    eapply foldM_inv; [|exact Ha1|exact H]. intros s i s' Hs Hx; cbv beta in Hx. eapply ginv_add_prot; eauto.
  - inv_bind H. apply ginv_add_node in E; [|exact Hg]. apply ginv_add_node in E0; [|exact E].
    assert (Ha1 : ginv a1).
    { destruct (ep_is_sbr e); [|inversion E1; subst; exact E0]. eapply ginv_add_prot; eauto. }
    destruct (ep_is_mgr e); [|inversion H; subst; exact Ha1]. eapply ginv_add_prot; eauto.
Qed.

Lemma ginv_connection d g c g' : ginv g -> create_connection d g c = Ok g' -> ginv g'.
Proof.
  intros Hg H. unfold create_connection in H. inv_bind H.
  eapply foldM_inv; [|exact Hg|exact H]. intros s p s' Hs Hx. inv_bind Hx. eapply ginv_add_pair; eauto.
Qed.

Theorem build_ginv d g : build d = Ok g -> ginv g.
Proof.
  intros H. unfold build in H. inv_bind H.
  eapply foldM_inv; [| |exact H]; [intros; eapply ginv_connection; eauto|].
  eapply foldM_inv; [| |exact E0]; [intros; eapply ginv_endpoint; eauto|].
  eapply foldM_inv; [| |exact E]; [intros; eapply ginv_router; eauto|apply ginv_empty].
Qed.

(* under ends_exist, the edge view enumerates exactly the edges *)
Lemma edges_view_In g e : ends_exist g -> (In e (edges_view g) <-> In e (g_edges g)).
Proof.
  intros He. unfold edges_view. rewrite in_flat_map. split.
  - intros (n & _ & Hf). apply filter_In in Hf. tauto.
  - intros Hin. destruct (He e Hin) as (Hs & _). unfold has_node, find_node in Hs.
    destruct (find _ (g_nodes g)) as [n|] eqn:F; [|discriminate]. apply find_some in F. destruct F as (Hn & Hname).
    exists n. split; [exact Hn|]. apply filter_In. split; [exact Hin|].
    apply String.eqb_eq in Hname. apply String.eqb_eq. congruence.
Qed.

(* ------------------------------------------------------------------ properties preserved by the primitives *)
(* Any graph property that add_node (for node types satisfying Q) and add_edge preserve is preserved by
   the array / tree / router / connection builders. *)
Section Preserve.
  Variable P : graph -> Prop.
  Variable Q : ntype -> Prop.
  Hypothesis P_node : forall g n g', P g -> Q (n_type n) -> add_node g n = Ok g' -> P g'.
  Hypothesis P_edge : forall g e g', P g -> add_edge g e = Ok g' -> P g'.

  Lemma pres_array_node name t desc connect n g ij g' :
    Q t -> P g -> add_array_node name t desc connect n g ij = Ok g' -> P g'.
  Proof.
    intros Hq Hg H. unfold add_array_node in H. destruct ij as [i j]. inv_bind H.
    apply P_node in E; [|exact Hg|exact Hq].
    assert (Ha0 : P a0).
    { destruct ((0 <? i) && connect); [|inversion E0; subst; exact E]. inv_bind E0. eauto. }
    destruct ((0 <? j) && connect); [|inversion H; subst; exact Ha0]. inv_bind H. eauto.
  Qed.

  Lemma pres_array g name arr t desc connect g' :
    Q t -> P g -> add_nodes_as_array g name arr t desc connect = Ok g' -> P g'.
  Proof.
    intros Hq Hg H. unfold add_nodes_as_array in H.
    destruct arr as [|m [|n [|x xs]]]; [discriminate| | |discriminate].
    - destruct connect; [discriminate|]. eapply foldM_inv; [|exact Hg|exact H].
      intros s x s' Hs Hx; cbv beta in Hx. eapply P_node; [exact Hs| |exact Hx]; exact Hq.
    - eapply foldM_inv; [|exact Hg|exact H]. intros s x s' Hs Hx; cbv beta in Hx. eapply pres_array_node; eauto.
  Qed.

  Lemma pres_tree tree : forall g parent lvl desc connect g',
    Q NRouter -> P g -> add_nodes_as_tree g parent tree lvl desc connect = Ok g' -> P g'.
  Proof.
    induction tree as [|t rest IH]; intros g parent lvl desc connect g' Hq Hg H; cbn [add_nodes_as_tree] in H.
    - inversion H; subst; exact Hg.
    - eapply foldM_inv; [|exact Hg|exact H]. intros s i s' Hs Hx. inv_bind Hx.
      apply P_node in E; [|exact Hs|exact Hq].
      assert (Ha0 : P a0).
      { destruct (connect && (0 <? lvl)); [|inversion E0; subst; exact E]. inv_bind E0. eauto. }
      eapply IH; eauto.
  Qed.

  Lemma pres_router g r g' : Q NRouter -> P g -> create_router g r = Ok g' -> P g'.
  Proof.
    intros Hq Hg H. unfold create_router in H.
    destruct (rt_array r) as [[|m [|n [|x xs]]]|], (rt_tree r) as [tree|]; try discriminate.
    - eapply pres_array; [exact Hq|exact Hg|exact H].
    - eapply pres_tree; [exact Hq|exact Hg|exact H].
    - eapply P_node; [exact Hg| |exact H]; exact Hq.
  Qed.

  Lemma pres_prot_edges (f : list Z -> edge) idxs : forall g g', P g -> foldM (fun g i => add_edge g (f i)) idxs g = Ok g' -> P g'.
  Proof. intros g g' Hg H. eapply foldM_inv; [|exact Hg|exact H]. intros s i s' Hs Hx; cbv beta in Hx. eauto. Qed.

  Lemma pres_endpoint g e g' : Q NEndpoint -> Q NNi -> P g -> create_endpoint g e = Ok g' -> P g'.
  Proof.
    intros Hq1 Hq2 Hg H. unfold create_endpoint in H. cbv zeta in H. destruct (ep_array e) as [arr|].
    - inv_bind H. apply pres_array in E; [|exact Hq1|exact Hg]. apply pres_array in E0; [|exact Hq2|exact E].
      assert (Ha1 : P a1).
      { destruct (ep_is_sbr e); [|inversion E1; subst; exact E0]. eapply pres_prot_edges; [exact E0|exact E1]. }
      destruct (ep_is_mgr e); [|inversion H; subst; exact Ha1]. eapply pres_prot_edges; [exact Ha1|exact H].
    - inv_bind H. eapply P_node in E; [|exact Hg|exact Hq1]. eapply P_node in E0; [|exact E|exact Hq2].
      assert (Ha1 : P a1).
      { destruct (ep_is_sbr e); [|inversion E1; subst; exact E0]. eauto. }
      destruct (ep_is_mgr e); [|inversion H; subst; exact Ha1]. eauto.
  Qed.

  Lemma pres_connection d g c g' : P g -> create_connection d g c = Ok g' -> P g'.
  Proof.
    intros Hg H. unfold create_connection in H. inv_bind H.
    eapply foldM_inv; [|exact Hg|exact H]. intros s p s' Hs Hx. inv_bind Hx. eauto.
  Qed.

  Theorem build_preserves d g : Q NRouter -> Q NEndpoint -> Q NNi -> P g_empty -> build d = Ok g -> P g.
  Proof.
    intros Q1 Q2 Q3 H0 H. unfold build in H. inv_bind H.
    eapply foldM_inv; [| |exact H]; [intros; eapply pres_connection; eauto|].
    eapply foldM_inv; [| |exact E0]; [intros; eapply pres_endpoint; eauto|].
    eapply foldM_inv; [| |exact E]; [intros; eapply pres_router; eauto|exact H0].
  Qed.
End Preserve.

(* node names are unique in every built graph: a duplicate name is rejected *)
Definition names (g : graph) : list string := map n_name (g_nodes g).

Lemma has_node_false g x : has_node g x = false -> ~ In x (names g).
Proof.
  unfold has_node, find_node, names. intros H Hin. apply in_map_iff in Hin. destruct Hin as (n & <- & Hn).
  destruct (find _ (g_nodes g)) eqn:F; [discriminate|].
  pose proof (find_none _ _ F n Hn) as Hf. cbv beta in Hf. rewrite (proj2 (String.eqb_eq _ _) eq_refl) in Hf. discriminate.
Qed.

Lemma NoDup_snoc {A} (l : list A) x : NoDup l -> ~ In x l -> NoDup (l ++ [x]).
Proof.
  intros Hn Hx. induction Hn as [|y l Hy Hn IH]; cbn; [constructor; [tauto|constructor]|].
  constructor.
  - rewrite in_app_iff. cbn. intros [H|[H|[]]]; [tauto|]. subst. apply Hx. left. reflexivity.
  - apply IH. intros H. apply Hx. right. exact H.
Qed.

Theorem build_nodup d g : build d = Ok g -> NoDup (names g).
Proof.
  apply (build_preserves (fun g => NoDup (names g)) (fun _ => True)); try exact I.
  - intros g0 n g' Hn _ H. unfold add_node in H. destruct (has_node g0 (n_name n)) eqn:Hh; [discriminate|].
    inversion H; subst. unfold names. cbn. rewrite map_app. cbn. apply NoDup_snoc; [exact Hn|].
    apply has_node_false. exact Hh.
  - intros g0 e g' Hn H. apply add_edge_spec in H. destruct H as (-> & _). exact Hn.
  - constructor.
Qed.

(* ------------------------------------------------------------------ which nodes an (unconnected) array adds *)
Definition mk_arr_node (name : string) (t : ntype) (desc : string) (idx : list Z) : node :=
  {| n_name := full_name name idx; n_type := t; n_arr := Some idx; n_lvl := None; n_desc := desc |}.

Lemma foldM_ext {A S} (f f' : S -> A -> res S) l : (forall s x, f s x = f' s x) -> forall s, foldM f l s = foldM f' l s.
Proof. intros H. induction l as [|x xs IH]; intros s; cbn; [reflexivity|]. rewrite H. destruct (f' s x); cbn; auto. Qed.

Lemma foldM_add_node_spec {A} (mk : A -> node) l : forall g g',
  foldM (fun g i => add_node g (mk i)) l g = Ok g' ->
  g_nodes g' = g_nodes g ++ map mk l /\ g_edges g' = g_edges g.
Proof.
  induction l as [|x xs IH]; intros g g' H; cbn [foldM] in H.
  - inversion H; subst. cbn. rewrite app_nil_r. auto.
  - inv_bind H. destruct (IH _ _ H) as (Hn & He). unfold add_node in E.
    destruct (has_node g (n_name (mk x))); [discriminate|]. inversion E; subst a; clear E. cbn in Hn, He.
    rewrite Hn, He, <- app_assoc. cbn. auto.
Qed.

Lemma array_node_plain name t desc n g i j :
  add_array_node name t desc false n g (i, j) = add_node g (mk_arr_node name t desc [i; j]).
Proof.
  unfold add_array_node. rewrite !andb_false_r. unfold mk_arr_node.
  destruct (add_node g _); cbn; reflexivity.
Qed.

Lemma pairs_lists {B} (h : list Z -> B) (L1 L2 : list Z) :
  map (fun ij : Z * Z => h [fst ij; snd ij]) (flat_map (fun i => map (fun j => (i, j)) L2) L1) =
  map h (flat_map (fun i => map (fun j => [i; j]) L2) L1).
Proof. induction L1 as [|i L1 IH]; cbn; [reflexivity|]. rewrite !map_app, !map_map, IH. reflexivity. Qed.

Lemma array_nodes g name arr t desc g' :
  add_nodes_as_array g name arr t desc false = Ok g' ->
  g_nodes g' = g_nodes g ++ map (mk_arr_node name t desc) (ep_indices arr) /\ g_edges g' = g_edges g.
Proof.
  unfold add_nodes_as_array, ep_indices. destruct arr as [|m [|n [|x xs]]]; try discriminate.
  - intros H. apply foldM_add_node_spec in H. rewrite map_map. exact H.
  - intros H.
    rewrite (foldM_ext _ (fun g ij => add_node g (mk_arr_node name t desc [fst ij; snd ij]))) in H
      by (intros s [i j]; apply array_node_plain).
    apply foldM_add_node_spec in H. rewrite pairs_lists in H. exact H.
Qed.

Lemma prot_edges_nodes (f : list Z -> edge) idxs : forall g g',
  foldM (fun g i => add_edge g (f i)) idxs g = Ok g' -> g_nodes g' = g_nodes g.
Proof.
  induction idxs as [|i l IH]; intros g g' H; cbn [foldM] in H; [inversion H; reflexivity|].
  inv_bind H. apply add_edge_spec in E. destruct E as (-> & _). apply IH in H. exact H.
Qed.

(* ------------------------------------------------------------------ endpoints and their interfaces *)
Definition ep_nm (base : string) (arr : option (list Z)) : string :=
  match arr with Some idx => full_name base idx | None => base end.

(* every network-interface node is named after its descriptor and index, and the endpoint node with the
   same descriptor and index exists; there are as many interfaces as endpoints *)
Definition ni_wf (g : graph) : Prop :=
  (forall n, In n (g_nodes g) -> n_type n = NNi ->
     n_name n = ep_nm (n_desc n +++ "_ni") (n_arr n) /\
     exists e, In e (g_nodes g) /\ n_type e = NEndpoint /\ n_name e = ep_nm (n_desc n) (n_arr n) /\
               n_desc e = n_desc n /\ n_arr e = n_arr n) /\
  length (nodes_of_type g NNi) = length (nodes_of_type g NEndpoint).

Lemma filter_routers_only (extra : list node) t :
  (forall n, In n extra -> n_type n = NRouter) -> t <> NRouter ->
  filter (fun n => ntype_eqb (n_type n) t) extra = [].
Proof.
  intros Hx Ht. induction extra as [|y ys IH]; cbn; [reflexivity|].
  rewrite (Hx y (or_introl eq_refl)). destruct t; try congruence; cbn; apply IH; intros; apply Hx; right; assumption.
Qed.

Lemma ni_wf_grow g g' extra :
  g_nodes g' = g_nodes g ++ extra -> (forall n, In n extra -> n_type n = NRouter) -> ni_wf g -> ni_wf g'.
Proof.
  intros Hn Hx (Hw & Hc). split.
  - intros n Hin Ht. rewrite Hn in Hin. apply in_app_iff in Hin. destruct Hin as [Hin|Hin].
    + destruct (Hw n Hin Ht) as (H1 & e & He & H2). split; [exact H1|]. exists e. split; [rewrite Hn; apply in_app_iff; auto|exact H2].
    + rewrite (Hx n Hin) in Ht. discriminate.
  - unfold nodes_of_type. rewrite Hn, !filter_app, !app_length.
    pose proof (fun t => filter_routers_only extra t Hx) as Hz.
    rewrite !Hz by discriminate. cbn. unfold nodes_of_type in Hc. lia.
Qed.

Definition mk_ep_node (nm : string) (a : option (list Z)) : node :=
  {| n_name := ep_nm nm a; n_type := NEndpoint; n_arr := a; n_lvl := None; n_desc := nm |}.
Definition mk_ni_node (nm : string) (a : option (list Z)) : node :=
  {| n_name := ep_nm (nm +++ "_ni") a; n_type := NNi; n_arr := a; n_lvl := None; n_desc := nm |}.

Lemma filter_map_all {A} (f : A -> node) t L : (forall x, n_type (f x) = t) ->
  filter (fun n => ntype_eqb (n_type n) t) (map f L) = map f L.
Proof. intros H. induction L as [|x xs IH]; cbn; [reflexivity|]. rewrite H, IH. destruct t; reflexivity. Qed.
Lemma filter_map_none {A} (f : A -> node) t t' L : (forall x, n_type (f x) = t') -> t' <> t ->
  filter (fun n => ntype_eqb (n_type n) t) (map f L) = [].
Proof. intros H Hne. induction L as [|x xs IH]; cbn; [reflexivity|]. rewrite H, IH. destruct t, t'; try congruence; reflexivity. Qed.

Lemma ni_wf_add_eps g g' nm L :
  g_nodes g' = (g_nodes g ++ map (mk_ep_node nm) L) ++ map (mk_ni_node nm) L -> ni_wf g -> ni_wf g'.
Proof.
  intros Hn (Hw & Hc). split.
  - intros n Hin Ht. rewrite Hn in Hin. rewrite !in_app_iff in Hin. destruct Hin as [[Hin|Hin]|Hin].
    + destruct (Hw n Hin Ht) as (H1 & e & He & H2). split; [exact H1|]. exists e.
      split; [rewrite Hn, !in_app_iff; auto|exact H2].
    + apply in_map_iff in Hin. destruct Hin as (a & <- & _). discriminate.
    + apply in_map_iff in Hin. destruct Hin as (a & <- & Ha). split; [reflexivity|].
      exists (mk_ep_node nm a). split; [rewrite Hn, !in_app_iff; left; right; apply in_map; exact Ha|].
      cbn. auto.
  - unfold nodes_of_type in *. rewrite Hn, !filter_app, !app_length.
    rewrite (filter_map_all (mk_ni_node nm) NNi), (filter_map_all (mk_ep_node nm) NEndpoint) by reflexivity.
    rewrite (filter_map_none (mk_ep_node nm) NNi NEndpoint), (filter_map_none (mk_ni_node nm) NEndpoint NNi)
      by (reflexivity || discriminate).
    rewrite !map_length. cbn. lia.
Qed.

Lemma ni_wf_same_nodes g g' : g_nodes g' = g_nodes g -> ni_wf g -> ni_wf g'.
Proof. intros H. apply (ni_wf_grow g g' []); [rewrite app_nil_r; exact H|intros n []]. Qed.

Lemma ni_wf_endpoint g e g' : ni_wf g -> create_endpoint g e = Ok g' -> ni_wf g'.
Proof.
  intros Hg H. unfold create_endpoint in H. cbv zeta in H. destruct (ep_array e) as [arr|].
  - inv_bind H. apply array_nodes in E. apply array_nodes in E0. destruct E as (N1 & _). destruct E0 as (N2 & _).
    assert (W1 : ni_wf a0).
    { apply (ni_wf_add_eps g a0 (ep_name e) (map Some (ep_indices arr))); [|exact Hg].
      rewrite N2, N1, !map_map. reflexivity. }
    assert (Ha1 : ni_wf a1).
    { destruct (ep_is_sbr e); [|inversion E1; subst; exact W1].
      apply prot_edges_nodes in E1. eapply ni_wf_same_nodes; eauto. }
    destruct (ep_is_mgr e); [|inversion H; subst; exact Ha1].
    apply prot_edges_nodes in H. eapply ni_wf_same_nodes; eauto.
  - inv_bind H.
    assert (W1 : ni_wf a0).
    { apply (ni_wf_add_eps g a0 (ep_name e) [None]); [|exact Hg].
      unfold add_node in E, E0. destruct (has_node g _); [discriminate|]. inversion E; subst a; clear E.
      cbn in E0. destruct (has_node _ _); [discriminate|]. inversion E0; subst a0. cbn. reflexivity. }
    assert (Ha1 : ni_wf a1).
    { destruct (ep_is_sbr e); [|inversion E1; subst; exact W1].
      apply add_edge_spec in E1. destruct E1 as (-> & _). eapply ni_wf_same_nodes; [|exact W1]. reflexivity. }
    destruct (ep_is_mgr e); [|inversion H; subst; exact Ha1].
    apply add_edge_spec in H. destruct H as (-> & _). eapply ni_wf_same_nodes; [|exact Ha1]. reflexivity.
Qed.

Theorem build_ni_wf d g : build d = Ok g -> ni_wf g.
Proof.
  intros H. unfold build in H. inv_bind H.
  assert (Pn : forall g0 n g', ni_wf g0 -> n_type n = NRouter -> add_node g0 n = Ok g' -> ni_wf g').
  { intros g0 n g' Hw Ht Ha. unfold add_node in Ha. destruct (has_node g0 _); [discriminate|]. inversion Ha; subst.
    apply (ni_wf_grow g0 _ [n]); [reflexivity| |exact Hw]. intros x [<-|[]]. exact Ht. }
  assert (Pe : forall g0 e g', ni_wf g0 -> add_edge g0 e = Ok g' -> ni_wf g').
  { intros g0 e g' Hw Ha. apply add_edge_spec in Ha. destruct Ha as (-> & _). eapply ni_wf_same_nodes; [|exact Hw]. reflexivity. }
  eapply foldM_inv; [| |exact H]; [intros; eapply (pres_connection ni_wf); eauto|].
  eapply foldM_inv; [| |exact E0]; [intros; eapply ni_wf_endpoint; eauto|].
  eapply foldM_inv; [| |exact E]; [intros; eapply (pres_router ni_wf (fun t => t = NRouter)); eauto|].
  split; [intros n []|reflexivity].
Qed.

(* ------------------------------------------------------------------ interfaces belong to a descriptor *)
Definition arr_opts (e : ep_desc) : list (option (list Z)) :=
  match ep_array e with None => [None] | Some arr => map Some (ep_indices arr) end.

Lemma endpoint_nodes g e g' : create_endpoint g e = Ok g' ->
  g_nodes g' = (g_nodes g ++ map (mk_ep_node (ep_name e)) (arr_opts e)) ++ map (mk_ni_node (ep_name e)) (arr_opts e).
Proof.
  intros H. unfold create_endpoint in H. cbv zeta in H. unfold arr_opts. destruct (ep_array e) as [arr|].
  - inv_bind H. apply array_nodes in E. apply array_nodes in E0. destruct E as (N1 & _). destruct E0 as (N2 & _).
    assert (N3 : g_nodes a1 = g_nodes a0).
    { destruct (ep_is_sbr e); [|inversion E1; subst; reflexivity]. apply prot_edges_nodes in E1. exact E1. }
    assert (N4 : g_nodes g' = g_nodes a1).
    { destruct (ep_is_mgr e); [|inversion H; subst; reflexivity]. apply prot_edges_nodes in H. exact H. }
    rewrite N4, N3, N2, N1, !map_map. reflexivity.
  - inv_bind H.
    assert (N3 : g_nodes a1 = g_nodes a0).
    { destruct (ep_is_sbr e); [|inversion E1; subst; reflexivity]. apply add_edge_spec in E1. destruct E1 as (-> & _). reflexivity. }
    assert (N4 : g_nodes g' = g_nodes a1).
    { destruct (ep_is_mgr e); [|inversion H; subst; reflexivity]. apply add_edge_spec in H. destruct H as (-> & _). reflexivity. }
    rewrite N4, N3. unfold add_node in E, E0. destruct (has_node g _); [discriminate|]. inversion E; subst a; clear E.
    cbn in E0. destruct (has_node _ _); [discriminate|]. inversion E0; subst a0. cbn. reflexivity.
Qed.

Lemma foldM_inv_in {A S} (P : S -> Prop) (f : S -> A -> res S) l :
  (forall s x s', In x l -> P s -> f s x = Ok s' -> P s') ->
  forall s s', P s -> foldM f l s = Ok s' -> P s'.
Proof.
  induction l as [|x xs IH]; intros Hf s s' Hs H; cbn [foldM] in H.
  - inversion H; subst; exact Hs.
  - inv_bind H. eapply IH; [intros; eapply Hf; eauto; right; assumption| |exact H]. eapply Hf; eauto. left. reflexivity.
Qed.

Definition ni_of_desc (d : desc) (g : graph) : Prop :=
  forall n, In n (g_nodes g) -> n_type n = NNi ->
    exists e, In e (d_eps d) /\ ep_name e = n_desc n /\ In (n_arr n) (arr_opts e).

Theorem build_ni_of_desc d g : build d = Ok g -> ni_of_desc d g.
Proof.
  intros H. unfold build in H. inv_bind H.
  assert (Same : forall g0 g1, g_nodes g1 = g_nodes g0 -> ni_of_desc d g0 -> ni_of_desc d g1).
  { intros g0 g1 Hn Hw n Hin. rewrite Hn in Hin. auto. }
  assert (Pn : forall g0 n g', ni_of_desc d g0 -> n_type n = NRouter -> add_node g0 n = Ok g' -> ni_of_desc d g').
  { intros g0 n g' Hw Ht Ha. unfold add_node in Ha. destruct (has_node g0 _); [discriminate|]. inversion Ha; subst.
    intros x Hin Hx. cbn in Hin. apply in_app_iff in Hin. destruct Hin as [Hin|[<-|[]]]; [auto|congruence]. }
  assert (Pe : forall g0 e g', ni_of_desc d g0 -> add_edge g0 e = Ok g' -> ni_of_desc d g').
  { intros g0 e g' Hw Ha. apply add_edge_spec in Ha. destruct Ha as (-> & _). eapply Same; [|exact Hw]. reflexivity. }
  eapply foldM_inv; [| |exact H]; [intros; eapply (pres_connection (ni_of_desc d)); eauto|].
  eapply foldM_inv_in; [| |exact E0].
  - intros s e s' He Hs Hc. apply endpoint_nodes in Hc. intros n Hin Ht. rewrite Hc in Hin.
    rewrite !in_app_iff in Hin. destruct Hin as [[Hin|Hin]|Hin].
    + auto.
    + apply in_map_iff in Hin. destruct Hin as (x & <- & _). discriminate.
    + apply in_map_iff in Hin. destruct Hin as (x & <- & Hx). exists e. cbn. auto.
  - eapply foldM_inv; [| |exact E]; [intros; eapply (pres_router (ni_of_desc d) (fun t => t = NRouter)); eauto|].
    intros n [].
Qed.

(* index bounds of array elements *)
Lemma zcount_In k : forall c x, In x (zcount k c 1) <-> c <= x < c + Z.of_nat k.
Proof.
  induction k as [|k IH]; intros c x; cbn [zcount]; [cbn; lia|].
  cbn [In]. rewrite IH. lia.
Qed.
Lemma zrange0_In n x : In x (zrange0 n) <-> 0 <= x < n.
Proof. unfold zrange0. rewrite zcount_In. lia. Qed.

Lemma ep_indices_bounds arr idx : In idx (ep_indices arr) ->
  match arr, idx with
  | [n], [i] => 0 <= i < n
  | [m; n], [x; y] => 0 <= x < m /\ 0 <= y < n
  | _, _ => False
  end.
Proof.
  unfold ep_indices. destruct arr as [|m [|n [|? ?]]]; try (intros []).
  - intros H. apply in_map_iff in H. destruct H as (i & <- & Hi). apply zrange0_In in Hi. exact Hi.
  - intros H. apply in_flat_map in H. destruct H as (x & Hx & Hy). apply in_map_iff in Hy. destruct Hy as (y & <- & Hy).
    apply zrange0_In in Hx. apply zrange0_In in Hy. auto.
Qed.
