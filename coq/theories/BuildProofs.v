(* BuildProofs.v — invariants of every graph that Build.build produces, for any description:
   every link has a mirror link (reverse direction, swapped port directions), and both ends of every
   edge are nodes of the graph. *)
From FV Require Import Base Graph Desc Build ModelBase.
From Coq Require Import ZifyBool.

Definition mirror_of (e e' : edge) : Prop :=
  e_src e' = e_dst e /\ e_dst e' = e_src e /\ is_link e' = true /\
  e_src_dir e' = e_dst_dir e /\ e_dst_dir e' = e_src_dir e.

Definition sym (g : graph) : Prop :=
  forall e, In e (g_edges g) -> is_link e = true -> exists e', In e' (g_edges g) /\ mirror_of e e'.
Definition ends_exist (g : graph) : Prop :=
  forall e, In e (g_edges g) -> has_node g (e_src e) = true /\ has_node g (e_dst e) = true.
Definition ginv (g : graph) : Prop := sym g /\ ends_exist g.

Lemma ginv_empty : ginv g_empty.
Proof. split; intros e []. Qed.

Lemma foldM_inv {A S} (P : S -> Prop) (f : S -> A -> res S) l :
  (forall s x s', P s -> f s x = Ok s' -> P s') ->
  forall s s', P s -> foldM f l s = Ok s' -> P s'.
Proof.
  intros Hf. induction l as [|x xs IH]; cbn [foldM]; intros s s' Hs H.
  - inversion H; subst; exact Hs.
  - inv_bind H. eapply IH; [|exact H]. eapply Hf; eauto.
Qed.

Lemma has_node_app g n x : has_node g x = true ->
  has_node {| g_nodes := g_nodes g ++ [n]; g_edges := g_edges g |} x = true.
Proof.
  unfold has_node, find_node. cbn. intros H. destruct (find _ (g_nodes g)) as [y|] eqn:F; [|discriminate].
  clear H. induction (g_nodes g) as [|z zs IH]; cbn in *; [discriminate|].
  destruct (str_eqb (n_name z) x); [reflexivity|]. apply IH. exact F.
Qed.

Lemma ginv_add_node g n g' : ginv g -> add_node g n = Ok g' -> ginv g'.
Proof.
  intros (Hs & He) H. unfold add_node in H. destruct (has_node g (n_name n)); [discriminate|].
  inversion H; subst; clear H. split.
  - exact Hs.
  - intros e Hin. cbn in Hin. destruct (He e Hin). split; apply has_node_app; assumption.
Qed.

Lemma add_edge_spec g e g' : add_edge g e = Ok g' ->
  g' = {| g_nodes := g_nodes g; g_edges := g_edges g ++ [e] |} /\
  has_node g (e_src e) = true /\ has_node g (e_dst e) = true.
Proof.
  unfold add_edge. destruct (has_edge _ _ _); [discriminate|].
  destruct (has_node g (e_src e)), (has_node g (e_dst e)); cbn; try discriminate.
  intros H; inversion H; auto.
Qed.

Lemma ends_add_edge g e g' : ends_exist g -> add_edge g e = Ok g' -> ends_exist g'.
Proof.
  intros He H. apply add_edge_spec in H. destruct H as (-> & H1 & H2).
  intros x Hin. cbn in Hin. apply in_app_iff in Hin. destruct Hin as [Hin|[<-|[]]].
  - destruct (He x Hin). auto.
  - auto.
Qed.

Lemma ginv_add_prot g u v g' : ginv g -> add_edge g (prot_edge u v) = Ok g' -> ginv g'.
Proof.
  intros (Hs & He) H. split; [|eapply ends_add_edge; eauto].
  apply add_edge_spec in H. destruct H as (-> & _).
  intros e Hin Hl. cbn in Hin. apply in_app_iff in Hin. destruct Hin as [Hin|[<-|[]]]; [|discriminate].
  destruct (Hs e Hin Hl) as (e' & He' & Hm). exists e'. split; [cbn; apply in_app_iff; auto|exact Hm].
Qed.

(* adding a link and then its mirror *)
Lemma ginv_add_pair g u v sd dd g1 g2 : ginv g ->
  add_edge g (mk_link u v sd dd) = Ok g1 -> add_edge g1 (mk_link v u dd sd) = Ok g2 -> ginv g2.
Proof.
  intros (Hs & He) H1 H2. split; [|eapply ends_add_edge; [eapply ends_add_edge|]; eauto].
  apply add_edge_spec in H1. destruct H1 as (-> & _). apply add_edge_spec in H2. destruct H2 as (-> & _).
  intros e Hin Hl. cbn in Hin |- *. rewrite !in_app_iff in Hin. destruct Hin as [[Hin|[<-|[]]]|[<-|[]]].
  - destruct (Hs e Hin Hl) as (e' & He' & Hm). exists e'. split; [rewrite !in_app_iff; auto|exact Hm].
  - exists (mk_link v u dd sd). split; [rewrite !in_app_iff; cbn; auto|]. unfold mirror_of; cbn; auto.
  - exists (mk_link u v sd dd). split; [rewrite !in_app_iff; cbn; auto|]. unfold mirror_of; cbn; auto.
Qed.

Lemma ginv_array_node name t desc connect n g ij g' :
  ginv g -> add_array_node name t desc connect n g ij = Ok g' -> ginv g'.
Proof.
  intros Hg H. unfold add_array_node in H. destruct ij as [i j]. inv_bind H.
  apply ginv_add_node in E; [|exact Hg].
  assert (Ha0 : ginv a0).
  { destruct ((0 <? i) && connect); [|inversion E0; subst; exact E].
    inv_bind E0. eapply ginv_add_pair; eauto. }
  destruct ((0 <? j) && connect); [|inversion H; subst; exact Ha0].
  inv_bind H. eapply ginv_add_pair; eauto.
Qed.

Lemma ginv_array g name arr t desc connect g' :
  ginv g -> add_nodes_as_array g name arr t desc connect = Ok g' -> ginv g'.
Proof.
  intros Hg H. unfold add_nodes_as_array in H.
  destruct arr as [|m [|n [|x xs]]]; [discriminate| | |discriminate].
  - destruct connect; [discriminate|]. eapply foldM_inv; [|exact Hg|exact H].
    intros s x s' Hs Hx; cbv beta in Hx. eapply ginv_add_node; eauto.
  - eapply foldM_inv; [|exact Hg|exact H]. intros s x s' Hs Hx; cbv beta in Hx. eapply ginv_array_node; eauto.
Qed.

Lemma ginv_tree tree : forall g parent lvl desc connect g',
  ginv g -> add_nodes_as_tree g parent tree lvl desc connect = Ok g' -> ginv g'.
Proof.
  induction tree as [|t rest IH]; intros g parent lvl desc connect g' Hg H; cbn [add_nodes_as_tree] in H.
  - inversion H; subst; exact Hg.
  - eapply foldM_inv; [|exact Hg|exact H]. intros s i s' Hs Hx. inv_bind Hx.
    apply ginv_add_node in E; [|exact Hs].
    assert (Ha0 : ginv a0).
    { destruct (connect && (0 <? lvl)); [|inversion E0; subst; exact E].
      inv_bind E0. eapply ginv_add_pair; eauto. }
    eapply IH; eauto.
Qed.

Lemma ginv_router g r g' : ginv g -> create_router g r = Ok g' -> ginv g'.
Proof.
  intros Hg H. unfold create_router in H.
  destruct (rt_array r) as [[|m [|n [|x xs]]]|], (rt_tree r) as [tree|]; try discriminate.
  - eapply ginv_array; eauto.
  - eapply ginv_tree; eauto.
  - eapply ginv_add_node; eauto.
Qed.

Lemma ginv_endpoint g e g' : ginv g -> create_endpoint g e = Ok g' -> ginv g'.
Proof.
  intros Hg H. unfold create_endpoint in H. cbv zeta in H. destruct (ep_array e) as [arr|].
  - inv_bind H. apply ginv_array in E; [|exact Hg]. apply ginv_array in E0; [|exact E].
    assert (Ha1 : ginv a1).
    { destruct (ep_is_sbr e); [|inversion E1; subst; exact E0].
      eapply foldM_inv; [|exact E0|exact E1]. intros s i s' Hs Hx; cbv beta in Hx. eapply ginv_add_prot; eauto. }
    destruct (ep_is_mgr e); [|inversion H; subst; exact Ha1].
    eapply foldM_inv; [|exact Ha1|exact H]. intros s i s' Hs Hx; cbv beta in Hx. eapply ginv_add_prot; eauto.
  - inv_bind H. apply ginv_add_node in E; [|exact Hg]. apply ginv_add_node in E0; [|exact E].
    assert (Ha1 : ginv a1).
    { destruct (ep_is_sbr e); [|inversion E1; subst; exact E0]. eapply ginv_add_prot; eauto. }
    destruct (ep_is_mgr e); [|inversion H; subst; exact Ha1]. eapply ginv_add_prot; eauto.
Qed.

Lemma ginv_connection d g c g' : ginv g -> create_connection d g c = Ok g' -> ginv g'.
Proof.
  intros Hg H. unfold create_connection in H. inv_bind H.
  eapply foldM_inv; [|exact Hg|exact H]. intros s p s' Hs Hx. inv_bind Hx. eapply ginv_add_pair; eauto.
Qed.

Theorem build_ginv d g : build d = Ok g -> ginv g.
Proof.
  intros H. unfold build in H. inv_bind H.
  eapply foldM_inv; [| |exact H]; [intros; eapply ginv_connection; eauto|].
  eapply foldM_inv; [| |exact E0]; [intros; eapply ginv_endpoint; eauto|].
  eapply foldM_inv; [| |exact E]; [intros; eapply ginv_router; eauto|apply ginv_empty].
Qed.

(* under ends_exist, the edge view enumerates exactly the edges *)
Lemma edges_view_In g e : ends_exist g -> (In e (edges_view g) <-> In e (g_edges g)).
Proof.
  intros He. unfold edges_view. rewrite in_flat_map. split.
  - intros (n & _ & Hf). apply filter_In in Hf. tauto.
  - intros Hin. destruct (He e Hin) as (Hs & _). unfold has_node, find_node in Hs.
    destruct (find _ (g_nodes g)) as [n|] eqn:F; [|discriminate]. apply find_some in F. destruct F as (Hn & Hname).
    exists n. split; [exact Hn|]. apply filter_In. split; [exact Hin|].
    apply String.eqb_eq in Hname. apply String.eqb_eq. congruence.
Qed.
