(* ParseProofs.v — what every description that passes the schema layer (parse_desc) satisfies.
   Read contrapositively these are rejection lemmas for C10's defect classes: an unknown field, a
   duplicate endpoint / router name, a subordinate without an address range, an invalid range, a range
   beyond the address width and protocols that disagree on the address width all make parse_desc
   (hence run_yaml) return Err. *)
From FV Require Import Base AddrRange Desc ModelBase.
From Coq Require Import ZifyBool.

Lemma forbid_extra_ok what allowed m :
  forbid_extra what allowed m = Ok tt -> forall k v, In (k, v) m -> In k allowed.
Proof.
  unfold forbid_extra. intros H k v Hin.
  destruct (filter _ m) as [|[k' v'] r] eqn:F; [|discriminate].
  destruct (existsb (str_eqb k) allowed) eqn:Ex.
  - apply existsb_exists in Ex. destruct Ex as (x & Hx & Hk). apply String.eqb_eq in Hk. subst. exact Hx.
  - assert (Hf : In (k, v) (filter (fun kv => negb (existsb (str_eqb (fst kv)) allowed)) m)).
    { apply filter_In. split; [exact Hin|]. cbn. rewrite Ex. reflexivity. }
    rewrite F in Hf. destruct Hf.
Qed.

Lemma nodupb_NoDup l : nodupb str_eqb l = true -> NoDup l.
Proof.
  induction l as [|x xs IH]; cbn; intros H; [constructor|].
  apply andb_true_iff in H. destruct H as (H1 & H2). constructor; [|apply IH; exact H2].
  intros Hin. apply negb_true_iff in H1.
  assert (existsb (str_eqb x) xs = true); [|congruence].
  apply existsb_exists. exists x. split; [exact Hin|apply String.eqb_eq; reflexivity].
Qed.

Lemma mapM_all {A B} (f : A -> res B) l l' : mapM f l = Ok l' -> forall x, In x l -> exists y, f x = Ok y.
Proof. intros H x Hx. destruct (mapM_In_l _ _ _ _ H Hx) as (y & _ & Hy). eauto. Qed.

Definition ep_ok (e : ep_desc) : Prop :=
  (ep_sbr e <> None -> ep_ranges e <> []) /\
  (forall rs, In rs (ep_ranges e) -> exists r, range_of_spec rs = Ok r).

Lemma parse_ep_ok v e : parse_ep v = Ok e -> ep_ok e.
Proof.
  unfold parse_ep. intros H. inv_bind H.
  inversion H; subst e; clear H. split; cbn.
  - intros Hs Hr. destruct a5; [|congruence]. rewrite Hr in E8. discriminate.
  - intros rs Hin. eapply mapM_all; eauto.
Qed.

Lemma parse_ep_keys v e : parse_ep v = Ok e ->
  exists m, v = YMap m /\ forall k x, In (k, x) m ->
    In k ["name"; "description"; "array"; "num"; "addr_range"; "xy_id_offset"; "mgr_port_protocol"; "sbr_port_protocol"].
Proof.
  unfold parse_ep. intros H. inv_bind H. destruct v; try discriminate. inversion E; subst. exists a. split; [reflexivity|].
  destruct a0. eapply forbid_extra_ok; eauto.
Qed.

Definition aw_of (d : desc) : Z := match d_protos d with p :: _ => p_addr p | [] => 0 end.

(* what passes the schema layer *)
Theorem parse_desc_ok v d : parse_desc v = Ok d ->
  NoDup (map ep_name (d_eps d)) /\ NoDup (map rt_name (d_rts d)) /\
  (forall e, In e (d_eps d) -> ep_ok e) /\
  (forall e rs, In e (d_eps d) -> In rs (ep_ranges e) ->
     exists r, range_of_spec rs = Ok r /\ r_end r <= 2 ^ aw_of d /\
       (forall b, ep_array e <> None -> ep_sbr e <> None -> r_base r = Some b ->
                  b + r_size r * ep_num e <= 2 ^ aw_of d)) /\
  (forall p q, In p (d_protos d) -> In q (d_protos d) -> p_addr p = p_addr q) /\
  d_use_table d = true.
Proof.
  unfold parse_desc. intros H. inv_bind H.
  (* the remaining hypothesis is the final record *)
  match type of H with Ok ?r = Ok _ => inversion H; subst d; clear H end. unfold aw_of. cbn [d_eps d_rts d_protos d_use_table].
  match goal with E : yreq "network" "endpoints" _ _ = Ok _ |- _ => rename E into Heps end.
  match goal with E : (if nodupb str_eqb (map ep_name _) then _ else _) = Ok _ |- _ => rename E into Hnd1 end.
  match goal with E : (if nodupb str_eqb (map rt_name _) then _ else _) = Ok _ |- _ => rename E into Hnd2 end.
  match goal with E : (if all_equal (map p_addr _) then _ else _) = Ok _ |- _ => rename E into Hae end.
  match goal with E : mapM (fun e0 => mapM _ (ep_ranges e0)) _ = Ok _ |- _ => rename E into Hfit end.
  split; [|split; [|split; [|split; [|split]]]].
  - match type of Hnd1 with (if ?c then _ else _) = _ => destruct c eqn:N; [apply nodupb_NoDup; exact N|discriminate] end.
  - match type of Hnd2 with (if ?c then _ else _) = _ => destruct c eqn:N; [apply nodupb_NoDup; exact N|discriminate] end.
  - intros e He. unfold yreq in Heps. destruct (yget "endpoints" _); [|discriminate]. inv_bind Heps.
    destruct (mapM_In _ _ _ _ Heps He) as (x & _ & Hx). eapply parse_ep_ok; eauto.
  - intros e rs He Hrs.
    destruct (mapM_all _ _ _ Hfit e He) as (y & Hy). cbv beta in Hy.
    destruct (mapM_all _ _ _ Hy rs Hrs) as (u & Hu). cbv beta in Hu.
    destruct (range_of_spec rs) as [r|] eqn:Er; cbn [bind] in Hu; [|discriminate].
    exists r. split; [reflexivity|].
    match type of Hu with (if ?c then _ else _) = _ => destruct c eqn:C; [discriminate|] end.
    revert C. destruct (ep_array e) as [arr|] eqn:Ea, (ep_sbr e) as [sb|] eqn:Es, (r_base r) as [b|] eqn:Eb; intros C;
      (split; [lia|intros b0 H1 H2 H3; try congruence; inversion H3; subst; lia]).
  - intros p q Hp Hq.
    match type of Hae with (if all_equal (map p_addr ?l) then _ else _) = _ =>
      destruct (all_equal (map p_addr l)) eqn:AE; [|discriminate]; destruct l as [|p0 ps]; [destruct Hp|] end.
    cbn in AE.
    assert (Hall : forall x, In x (p0 :: ps) -> p_addr x = p_addr p0).
    { intros x [<-|Hx]; [reflexivity|]. rewrite forallb_forall in AE.
      specialize (AE (p_addr x) (in_map _ _ _ Hx)). lia. }
    rewrite (Hall p Hp), (Hall q Hq). reflexivity.
  - reflexivity.
Qed.

(* unknown fields: every key of every mapping that the schema layer accepts is a known field *)
Ltac keys_tac H :=
  inv_bind H;
  match goal with E : ymap _ ?v = Ok ?a |- _ => destruct v; try discriminate E; inversion E; subst end;
  eexists; split; [reflexivity|];
  match goal with E : forbid_extra _ _ _ = Ok ?u |- _ => destruct u; eapply forbid_extra_ok; exact E end.

Lemma parse_proto_keys v p : parse_proto v = Ok p ->
  exists m, v = YMap m /\ forall k x, In (k, x) m ->
    In k ["name"; "description"; "protocol"; "type"; "direction"; "data_width"; "addr_width"; "id_width"; "user_width"; "type_prefix"].
Proof. unfold parse_proto. intros H. keys_tac H. Qed.

Lemma parse_rt_keys v r : parse_rt v = Ok r ->
  exists m, v = YMap m /\ forall k x, In (k, x) m -> In k ["name"; "array"; "tree"; "xy_id_offset"; "auto_connect"; "degree"].
Proof. unfold parse_rt. intros H. keys_tac H. Qed.

Lemma parse_conn_keys v c : parse_conn v = Ok c ->
  exists m, v = YMap m /\ forall k x, In (k, x) m ->
    In k ["description"; "src"; "dst"; "src_range"; "dst_range"; "src_idx"; "dst_idx"; "src_lvl"; "dst_lvl"; "dst_dir"; "src_dir";
          "allow_multi"; "bidirectional"].
Proof. unfold parse_conn. intros H. keys_tac H. Qed.

Lemma parse_range_keys v r : parse_range v = Ok r ->
  exists m, v = YMap m /\ forall k x, In (k, x) m -> In k ["start"; "end"; "size"; "base"; "idx"; "desc"].
Proof. unfold parse_range. intros H. keys_tac H. Qed.

Lemma parse_desc_keys v d : parse_desc v = Ok d ->
  exists m, v = YMap m /\ forall k x, In (k, x) m ->
    In k ["name"; "description"; "network_type"; "protocols"; "endpoints"; "routers"; "connections"; "graph"; "routing"].
Proof.
  unfold parse_desc. intros H.
  destruct (bind_ok _ _ _ H) as (a & E & H1). destruct (bind_ok _ _ _ H1) as (u & E0 & _).
  destruct v; try discriminate E. inversion E; subst. eexists; split; [reflexivity|].
  destruct u. eapply forbid_extra_ok; exact E0.
Qed.

(* unidirectional connections and contradictory selectors are rejected at parse time *)
Lemma parse_conn_bidir v c : parse_conn v = Ok c ->
  forall m, v = YMap m -> yget "bidirectional" m <> Some (YBool false).
Proof.
  unfold parse_conn. intros H m ->. inv_bind H. cbn in E. inversion E; subst a.
  intros Hb. rewrite Hb in *.
  repeat match goal with E : yopt y_bool (Some (YBool false)) = Ok ?x |- _ => cbn in E; inversion E; subst x; clear E end.
  match goal with E : match Some false with _ => _ end = Ok _ |- _ => discriminate E | _ => congruence end.
Qed.

(* ------------------------------------------------------------------ protocols agree on their widths *)
Lemma all_equal_spec {A} (f : A -> Z) l : all_equal (map f l) = true -> forall p q, In p l -> In q l -> f p = f q.
Proof.
  destruct l as [|p0 ps]; [discriminate|]. cbn. intros AE.
  assert (Hall : forall x, In x (p0 :: ps) -> f x = f p0).
  { intros x [<-|Hx]; [reflexivity|]. rewrite forallb_forall in AE. specialize (AE (f x) (in_map _ _ _ Hx)). lia. }
  intros p q Hp Hq. rewrite (Hall p Hp), (Hall q Hq). reflexivity.
Qed.

Definition of_kind (k : string) (p : proto) : bool := match p_type p with Some x => str_eqb x k | None => false end.

(* axi networks: all protocols have one data width and one user width, whatever their (optional) type labels;
   narrow-wide networks: every protocol has a type, and the narrow (wide) ones agree among themselves *)
Theorem parse_desc_widths v d : parse_desc v = Ok d ->
  (d_nw d = false -> forall p q, In p (d_protos d) -> In q (d_protos d) -> p_data p = p_data q /\ p_user p = p_user q) /\
  (d_nw d = true ->
     (forall p, In p (d_protos d) -> p_type p <> None) /\
     forall k, k = "narrow" \/ k = "wide" -> forall p q, In p (d_protos d) -> In q (d_protos d) ->
       of_kind k p = true -> of_kind k q = true -> p_data p = p_data q /\ p_user p = p_user q).
Proof.
  unfold parse_desc. intros H. inv_bind H.
  match type of H with Ok ?r = Ok _ => inversion H; subst d; clear H end. cbn [d_nw d_protos].
  match goal with E : (if ?nw then _ else _) = Ok _ |- _ => rename E into Hw end.
  split; intros Hnw; subst; cbn in Hw.
  - repeat match type of Hw with (if negb ?c then _ else _) = _ => let X := fresh "W" in destruct c eqn:X; cbn [negb] in Hw; [|discriminate] end.
    intros p q Hp Hq. split; [exact (all_equal_spec p_data _ W p q Hp Hq)|exact (all_equal_spec p_user _ W0 p q Hp Hq)].
  - repeat match type of Hw with (if negb ?c then _ else _) = _ => let X := fresh "W" in destruct c eqn:X; cbn [negb] in Hw; [|discriminate] end.
    split.
    + intros p Hp. rewrite forallb_forall in W3. specialize (W3 p Hp). destruct (p_type p); [discriminate|discriminate W3].
    + assert (Hf : forall k x, In x a5 -> of_kind k x = true ->
                     In x (filter (fun p0 => match p_type p0 with Some x0 => str_eqb x0 k | None => false end) a5))
        by (intros k x Hx Hk; apply filter_In; split; assumption).
      intros k [-> | ->] p q Hp Hq Kp Kq.
      * split; [exact (all_equal_spec p_data _ W p q (Hf _ p Hp Kp) (Hf _ q Hq Kq))|exact (all_equal_spec p_user _ W1 p q (Hf _ p Hp Kp) (Hf _ q Hq Kq))].
      * split; [exact (all_equal_spec p_data _ W0 p q (Hf _ p Hp Kp) (Hf _ q Hq Kq))|exact (all_equal_spec p_user _ W2 p q (Hf _ p Hp Kp) (Hf _ q Hq Kq))].
Qed.
