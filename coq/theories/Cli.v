(* Cli.v — the command-line pipeline as a sequence of effectful steps (regenerated from cli.py into
   gen/CliFacts.v on every run) and the "no output on rejection" argument (C10, C15). *)
From FV Require Import Base.

Definition step := (string * (string * string))%type.     (* kind, what, target *)
Definition is_call (s : step) : bool := str_eqb (fst s) "call".
Definition is_write (s : step) : bool := str_eqb (fst s) "write".

(* files written when the run raises at step k (steps before k were executed) *)
Definition written (steps : list step) : list string := map (fun s => fst (snd s)) (filter is_write steps).
Definition written_if_fails_at (steps : list step) (k : nat) : list string := written (firstn k steps).

(* no step that can raise comes after the first write *)
Fixpoint writes_last (steps : list step) : bool :=
  match steps with
  | [] => true
  | s :: rest => if is_write s then forallb (fun t => negb (is_call t)) rest else writes_last rest
  end.

Lemma written_nil_iff steps : written steps = [] <-> forallb (fun s => negb (is_write s)) steps = true.
Proof.
  unfold written. induction steps as [|s r IH]; cbn; [tauto|].
  destruct (is_write s); cbn; [split; discriminate|exact IH].
Qed.

Theorem no_output_on_failure steps k s :
  writes_last steps = true -> nth_error steps k = Some s -> is_call s = true ->
  written_if_fails_at steps k = [].
Proof.
  unfold written_if_fails_at. revert k. induction steps as [|t r IH]; intros k Hw Hn Hc.
  - destruct k; discriminate.
  - destruct k as [|k]; [reflexivity|]. cbn [nth_error] in Hn. cbn [firstn writes_last] in *.
    destruct (is_write t) eqn:E.
    + exfalso. rewrite forallb_forall in Hw. apply nth_error_In in Hn. specialize (Hw s Hn).
      rewrite Hc in Hw. discriminate.
    + unfold written. cbn [filter]. rewrite E. apply (IH k Hw Hn Hc).
Qed.

(* ---------------------------------------------------------------- C15: modes are views of one result *)
(* what a run emits, in order: (channel, content variable); channel = file variable or "stdout" *)
Definition outputs (steps : list step) : list (string * string) :=
  flat_map (fun s => if is_write s then [(fst (snd s), snd (snd s))]
                     else if is_call s && str_eqb (fst (snd s)) "print" then [("stdout", snd (snd s))]
                     else []) steps.

(* how often a variable is assigned, and by what *)
Definition assigners (v : string) (steps : list step) : list string :=
  flat_map (fun s => if str_eqb (snd (snd s)) v && negb (is_write s) && negb (str_eqb (fst (snd s)) "print")
                     then [fst (snd s)] else []) steps.

Definition expected_outputs (mode : bool * (bool * bool)) : list (string * string) :=
  let '(outdir, (only_pkg, only_top)) := mode in
  (if only_top then [] else [(if outdir then "pkg_file_name" else "stdout", "rendered_pkg")]) ++
  (if only_pkg then [] else [(if outdir then "top_file_name" else "stdout", "rendered_top")]).

Definition out_eqb (a b : string * string) : bool := str_eqb (fst a) (fst b) && str_eqb (snd a) (snd b).

(* in every mode: the package text is the one value returned by render_package(), the top text the one
   value returned by render_network(), both computed regardless of the mode, and the run emits
   exactly the expected views of these two values *)
Definition mode_ok (m : (bool * (bool * bool)) * list step) : bool :=
  list_eqb String.eqb (assigners "rendered_pkg" (snd m)) ["network.render_package"] &&
  list_eqb String.eqb (assigners "rendered_top" (snd m)) ["network.render_network"] &&
  list_eqb out_eqb (outputs (snd m)) (expected_outputs (fst m)).
