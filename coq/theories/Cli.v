(* Cli.v — the command-line pipeline as a sequence of effectful steps (regenerated from cli.py into
   gen/CliFacts.v on every run) and the "no output on rejection" argument (C10, C15). *)
From FV Require Import Base.

Definition step := (string * (string * string))%type.     (* kind, what, target *)
Definition is_call (s : step) : bool := str_eqb (fst s) "call".
Definition is_write (s : step) : bool := str_eqb (fst s) "write".

(* files written when the run raises at step k (steps before k were executed) *)
Definition written (steps : list step) : list string := map (fun s => fst (snd s)) (filter is_write steps).
Definition written_if_fails_at (steps : list step) (k : nat) : list string := written (firstn k steps).

(* no step that can raise comes after the first write *)
Fixpoint writes_last (steps : list step) : bool :=
  match steps with
  | [] => true
  | s :: rest => if is_write s then forallb (fun t => negb (is_call t)) rest else writes_last rest
  end.

Lemma written_nil_iff steps : written steps = [] <-> forallb (fun s => negb (is_write s)) steps = true.
Proof.
  unfold written. induction steps as [|s r IH]; cbn; [tauto|].
  destruct (is_write s); cbn; [split; discriminate|exact IH].
Qed.

Theorem no_output_on_failure steps k s :
  writes_last steps = true -> nth_error steps k = Some s -> is_call s = true ->
  written_if_fails_at steps k = [].
Proof.
  unfold written_if_fails_at. revert k. induction steps as [|t r IH]; intros k Hw Hn Hc.
  - destruct k; discriminate.
  - destruct k as [|k]; [reflexivity|]. cbn [nth_error] in Hn. cbn [firstn writes_last] in *.
    destruct (is_write t) eqn:E.
    + exfalso. rewrite forallb_forall in Hw. apply nth_error_In in Hn. specialize (Hw s Hn).
      rewrite Hc in Hw. discriminate.
    + unfold written. cbn [filter]. rewrite E. apply (IH k Hw Hn Hc).
Qed.
