(* Cli.v — the command-line pipeline as a sequence of effectful steps (regenerated from cli.py into
   gen/CliFacts.v on every run) and the "no output on rejection" argument (C10, C15). *)
From FV Require Import Base.

Definition step := (string * (string * string))%type.     (* kind, what, target *)
Definition is_call (s : step) : bool := str_eqb (fst s) "call".
Definition is_write (s : step) : bool := str_eqb (fst s) "write".

(* files written when the run raises at step k (steps before k were executed) *)
Definition written (steps : list step) : list string := map (fun s => fst (snd s)) (filter is_write steps).
Definition written_if_fails_at (steps : list step) (k : nat) : list string := written (firstn k steps).

(* no step that can raise comes after the first write *)
Fixpoint writes_last (steps : list step) : bool :=
  match steps with
  | [] => true
  | s :: rest => if is_write s then forallb (fun t => negb (is_call t)) rest else writes_last rest
  end.

Lemma written_nil_iff steps : written steps = [] <-> forallb (fun s => negb (is_write s)) steps = true.
Proof.
  unfold written. induction steps as [|s r IH]; cbn; [tauto|].
  destruct (is_write s); cbn; [split; discriminate|exact IH].
Qed.

Theorem no_output_on_failure steps k s :
  writes_last steps = true -> nth_error steps k = Some s -> is_call s = true ->
  written_if_fails_at steps k = [].
Proof.
  unfold written_if_fails_at. revert k. induction steps as [|t r IH]; intros k Hw Hn Hc.
  - destruct k; discriminate.
  - destruct k as [|k]; [reflexivity|]. cbn [nth_error] in Hn. cbn [firstn writes_last] in *.
    destruct (is_write t) eqn:E.
    + exfalso. rewrite forallb_forall in Hw. apply nth_error_In in Hn. specialize (Hw s Hn).
      rewrite Hc in Hw. discriminate.
    + unfold written. cbn [filter]. rewrite E. apply (IH k Hw Hn Hc).
Qed.

(* The steps that can REJECT a description: the stages of the generator (parse_config, every call on the network object,
   the query handler) and the formatter.  A diagnostic call (print, logging) or a path operation does not reject a
   description; C10 speaks about rejection, so the statement quantifies over these steps (a `--verbose` message between
   the two writes is not a violation; an early write before render_network is). *)
Definition rejecting (s : step) : bool :=
  is_call s && (String.prefix "network." (fst (snd s)) ||
                existsb (str_eqb (fst (snd s))) ["parse_config"; "handle_query"; "verible_format"; "render_sources"; "parse_args"]).
Fixpoint writes_after_stages (steps : list step) : bool :=
  match steps with
  | [] => true
  | s :: rest => if is_write s then forallb (fun t => negb (rejecting t)) rest else writes_after_stages rest
  end.
Theorem no_output_on_rejection steps k s :
  writes_after_stages steps = true -> nth_error steps k = Some s -> rejecting s = true ->
  written_if_fails_at steps k = [].
Proof.
  unfold written_if_fails_at. revert k. induction steps as [|t r IH]; intros k Hw Hn Hc.
  - destruct k; discriminate.
  - destruct k as [|k]; [reflexivity|]. cbn [nth_error] in Hn. cbn [firstn writes_after_stages] in *.
    destruct (is_write t) eqn:E.
    + exfalso. rewrite forallb_forall in Hw. apply nth_error_In in Hn. specialize (Hw s Hn).
      rewrite Hc in Hw. discriminate.
    + unfold written. cbn [filter]. rewrite E. apply (IH k Hw Hn Hc).
Qed.

(* ---------------------------------------------------------------- C15: modes are views of one result *)
(* what a run emits, in order: (channel, content variable); channel = file variable or "stdout" *)
Definition outputs (steps : list step) : list (string * string) :=
  flat_map (fun s => if is_write s then [(fst (snd s), snd (snd s))]
                     else if is_call s && str_eqb (fst (snd s)) "print" then [("stdout", snd (snd s))]
                     else []) steps.

(* how often a variable is assigned, and by what *)
Definition assigners (v : string) (steps : list step) : list string :=
  flat_map (fun s => if str_eqb (snd (snd s)) v && negb (is_write s) && negb (str_eqb (fst (snd s)) "print")
                     then [fst (snd s)] else []) steps.

Definition expected_outputs (mode : bool * (bool * bool)) : list (string * string) :=
  let '(outdir, (only_pkg, only_top)) := mode in
  (if only_top then [] else [(if outdir then "pkg_file_name" else "stdout", "rendered_pkg")]) ++
  (if only_pkg then [] else [(if outdir then "top_file_name" else "stdout", "rendered_top")]).

Definition out_eqb (a b : string * string) : bool := str_eqb (fst a) (fst b) && str_eqb (snd a) (snd b).

(* in every mode: the package text is the one value returned by render_package(), the top text the one
   value returned by render_network(), both computed regardless of the mode, and the run emits
   exactly the expected views of these two values *)
Definition mode_ok (m : (bool * (bool * bool)) * list step) : bool :=
  list_eqb String.eqb (assigners "rendered_pkg" (snd m)) ["network.render_package"] &&
  list_eqb String.eqb (assigners "rendered_top" (snd m)) ["network.render_network"] &&
  list_eqb out_eqb (outputs (snd m)) (expected_outputs (fst m)).

(* ---------------------------------------------------------------- the hand model of the pipeline and observed runs *)
(* Second tie (used next to the regenerated step lists, and instead of them when a rewrite of cli.py leaves the
   translator's fragment): the pipeline written down by hand, and a checker that compares an OBSERVED run of the real
   command line (harness/clitrace_runner.py: stages entered, files present at each entry, what was emitted) with it. *)
From FV Require Import Check CheckProofs.

Definition mode := (bool * (bool * bool))%type.            (* -o given, --only-pkg, --only-top *)
Definition build_stages : list string :=
  ["parse_config"; "network.create_network"; "network.compile_network"; "network.gen_routing_info"].
Definition render_stages : list string := ["network.render_package"; "network.render_network"].
Definition stage_args (n : string) : string := if str_eqb n "parse_config" then "Network, args.config" else "".
Definition out_step (o : string * string) : step :=
  if str_eqb (fst o) "stdout" then ("call", ("print", snd o)) else ("write", (fst o, snd o)).
Definition cli_model (m : mode) : list step :=
  map (fun n => ("call", (n, stage_args n))) (build_stages ++ render_stages) ++ map out_step (expected_outputs m).

Definition all_modes : list mode :=
  flat_map (fun a => flat_map (fun b => map (fun c => (a, (b, c))) [false; true]) [false; true]) [true; false].

Lemma all_modes_complete m : In m all_modes.
Proof. destruct m as [[|] [[|] [|]]]; cbn; tauto. Qed.

(* an observed run: (stage, argument summary, names of the files in the output directory when the stage was entered),
   then what the run emitted as (channel, content) with the model's names *)
Record cli_run := { cr_calls : list (string * (string * list string)); cr_outs : list (string * string) }.

Definition ends_with (suf s : string) : bool :=
  let n := String.length s in let k := String.length suf in
  Nat.leb k n && str_eqb (substring (n - k) k s) suf.
Definition is_stage (n : string) : bool := existsb (str_eqb n) (build_stages ++ render_stages).
Definition run_steps (r : cli_run) : list step :=
  map (fun c => ("call", (fst c, fst (snd c)))) (filter (fun c => is_stage (fst c)) (cr_calls r)) ++ map out_step (cr_outs r).
Definition step_eqb (a b : step) : bool :=
  str_eqb (fst a) (fst b) && str_eqb (fst (snd a)) (fst (snd b)) && str_eqb (snd (snd a)) (snd (snd b)).
Definition clean_at_entries (r : cli_run) : bool :=
  forallb (fun c => forallb (fun f => negb (ends_with ".sv" f)) (snd (snd c))) (cr_calls r).

Definition chk_cli_run (m : mode) (r : cli_run) : fails :=
  guard (list_eqb step_eqb (run_steps r) (cli_model m)) "cli-steps"
        "the stages entered (with their arguments) and the outputs emitted are not those of the pipeline model for this mode" ++
  guard (clean_at_entries r) "file-before-stage"
        "a generated file exists in the output directory when a stage of the generator is entered (a failure of that stage would leave it behind)".

(* a run cut short by a failure injected at the entry of a stage: nothing may be left behind, the exit status is not 0 *)
Definition chk_cli_failed (rc : Z) (left_behind : list string) : fails :=
  guard (negb (rc =? 0)) "failure-exit-status" "a run whose stage raised ends with exit status 0" ++
  guard (forallb (fun f => negb (ends_with ".sv" f)) left_behind) "output-after-failure"
        "a run whose stage raised leaves a generated file behind".

Lemma step_eqb_eq a b : step_eqb a b = true -> a = b.
Proof.
  destruct a as (a1 & a2 & a3), b as (b1 & b2 & b3). unfold step_eqb. cbn [fst snd].
  rewrite !andb_true_iff. intros ((H1 & H2) & H3). apply str_eqb_eq in H1, H2, H3. subst. reflexivity.
Qed.
Lemma list_step_eqb_eq : forall l k, list_eqb step_eqb l k = true -> l = k.
Proof.
  induction l as [|x xs IH]; intros [|y ys]; cbn; try discriminate; auto.
  rewrite andb_true_iff. intros (A & B). apply step_eqb_eq in A. subst. f_equal. auto.
Qed.

Theorem cli_model_writes_last m : writes_last (cli_model m) = true.
Proof. destruct m as [[|] [[|] [|]]]; vm_compute; reflexivity. Qed.
Theorem cli_model_outputs m : outputs (cli_model m) = expected_outputs m.
Proof. destruct m as [[|] [[|] [|]]]; vm_compute; reflexivity. Qed.
Theorem cli_model_no_output_on_failure m k s :
  nth_error (cli_model m) k = Some s -> is_call s = true -> written_if_fails_at (cli_model m) k = [].
Proof. apply no_output_on_failure, cli_model_writes_last. Qed.
(* the model is built before any rendering, by the same argument-free calls in every mode *)
Theorem cli_model_mode_free m m' :
  filter is_call (firstn 6 (cli_model m)) = filter is_call (firstn 6 (cli_model m')).
Proof. destruct m as [[|] [[|] [|]]], m' as [[|] [[|] [|]]]; vm_compute; reflexivity. Qed.

Theorem chk_cli_run_sound m r : chk_cli_run m r = [] ->
  run_steps r = cli_model m /\ outputs (run_steps r) = expected_outputs m /\ clean_at_entries r = true /\
  forall k s, nth_error (run_steps r) k = Some s -> is_call s = true -> written_if_fails_at (run_steps r) k = [].
Proof.
  unfold chk_cli_run. intros H. apply app_eq_nil in H. destruct H as (H1 & H2).
  unfold guard in H1, H2.
  destruct (list_eqb step_eqb (run_steps r) (cli_model m)) eqn:E1; [|discriminate].
  destruct (clean_at_entries r) eqn:E2; [|discriminate].
  apply list_step_eqb_eq in E1. rewrite E1. repeat split; auto using cli_model_outputs.
  intros k s. apply cli_model_no_output_on_failure.
Qed.
