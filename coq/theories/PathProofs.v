(* PathProofs.v — next-hop routing by ANY shortest-path oracle delivers in exactly the hop distance.
   Pure graph theory, no bound on the graph: this is the core of C02 and C14. *)
From FV Require Import Base.
From Coq Require Import ZifyBool.

Lemma last_indep {A} (l : list A) x a b : last (x :: l) a = last (x :: l) b.
Proof. revert x. induction l as [|y ys IH]; intros x; [reflexivity|]. cbn [last] in *. apply (IH y). Qed.

Section NextHop.
  Variable edge : string -> string -> Prop.
  Variable t : string.                                 (* the destination *)

  (* a path is a non-empty node list whose consecutive nodes are joined by edges *)
  Fixpoint is_walk (p : list string) : Prop :=
    match p with
    | a :: ((b :: _) as tl) => edge a b /\ is_walk tl
    | _ => True
    end.
  Definition path_to_t (p : list string) (s : string) : Prop :=
    is_walk p /\ hd_error p = Some s /\ last p s = t /\ p <> [].

  (* the oracle, already applied to the destination: sp s = shortest path from s to t *)
  Variable sp : string -> option (list string).
  Hypothesis sp_path : forall s p, sp s = Some p -> path_to_t p s.
  Hypothesis sp_min : forall s p q, sp s = Some p -> path_to_t q s -> (length p <= length q)%nat.
  (* completeness is only needed for paths up to the length bound B of what the oracle returns
     (a weaker hypothesis than unbounded completeness, so a stronger theorem) *)
  Variable B : nat.
  Hypothesis sp_bound : forall s p, sp s = Some p -> (length p <= B)%nat.
  Hypothesis sp_complete : forall s q, path_to_t q s -> (length q <= B)%nat -> sp s <> None.

  Lemma walk_tail a p : is_walk (a :: p) -> is_walk p.
  Proof. destruct p; cbn; tauto. Qed.

  Lemma path_tail a b p : path_to_t (a :: b :: p) a -> path_to_t (b :: p) b.
  Proof.
    intros (Hw & _ & Hl & _). unfold path_to_t. split; [|split; [|split]].
    - eapply walk_tail; eauto.
    - reflexivity.
    - rewrite <- Hl. cbn [last]. apply last_indep.
    - discriminate.
  Qed.

  (* one step: the oracle's path from the next node is exactly one shorter *)
  Lemma next_shorter s n rest p :
    sp s = Some p -> p = s :: n :: rest ->
    exists p', sp n = Some p' /\ length p' = length (n :: rest).
  Proof.
    intros Hs ->. pose proof (sp_path _ _ Hs) as Hp.
    pose proof (path_tail _ _ _ Hp) as Hn.
    pose proof (sp_bound _ _ Hs) as Hb. cbn [length] in Hb.
    destruct (sp n) as [p'|] eqn:En; [|exfalso; eapply (sp_complete n (n :: rest)); eauto; cbn [length]; lia].
    exists p'. split; [reflexivity|].
    pose proof (sp_min _ _ _ En Hn) as H1.
    (* conversely s :: p' is a path from s, so p is no longer than it *)
    pose proof (sp_path _ _ En) as (Hw' & Hh' & Hl' & Hne').
    assert (Hq : path_to_t (s :: p') s).
    { destruct p' as [|x xs]; [congruence|]. cbn in Hh'. inversion Hh'; subst x.
      destruct Hp as (Hw & _). cbn [is_walk] in Hw. destruct Hw as (Hsn & _).
      unfold path_to_t. split; [|split; [|split]].
      - cbn [is_walk]. split; [exact Hsn|exact Hw'].
      - reflexivity.
      - rewrite <- Hl'. cbn [last]. apply last_indep.
      - discriminate. }
    pose proof (sp_min _ _ _ Hs Hq) as H2. cbn [length] in *. lia.
  Qed.

  (* follow the oracle's next hops *)
  Fixpoint follow (fuel : nat) (u : string) : list string :=
    match fuel with
    | O => [u]
    | S f => match sp u with
             | Some (_ :: n :: _) => u :: follow f n
             | _ => [u]
             end
    end.

  Lemma path_head s p : path_to_t p s -> exists rest, p = s :: rest.
  Proof. intros (_ & Hh & _ & Hne). destruct p as [|x xs]; [congruence|]. cbn in Hh. inversion Hh. eauto. Qed.

  Lemma single_path s : path_to_t [s] s -> s = t.
  Proof. intros (_ & _ & Hl & _). cbn in Hl. exact Hl. Qed.

  Theorem follow_delivers : forall k s p,
    sp s = Some p -> length p = S k ->
    let v := follow k s in
    length v = S k /\ last v s = t /\ hd_error v = Some s /\
    (* the i-th visited node is at oracle distance (S k - i): in particular all visited nodes differ *)
    forall i u, nth_error v i = Some u -> exists q, sp u = Some q /\ length q = (S k - i)%nat.
  Proof.
    induction k as [|k IH]; intros s p Hs Hl; cbn zeta.
    - cbn [follow]. pose proof (sp_path _ _ Hs) as Hp. destruct (path_head _ _ Hp) as (rest & ->).
      destruct rest; [|cbn in Hl; lia]. repeat split; try reflexivity.
      + cbn. apply single_path. exact Hp.
      + intros [|i] u Hu; cbn in Hu; [|destruct i; discriminate]. inversion Hu; subst. exists [u]. auto.
    - pose proof (sp_path _ _ Hs) as Hp. destruct (path_head _ _ Hp) as (rest & ->).
      destruct rest as [|n rest]; [cbn in Hl; lia|].
      destruct (next_shorter s n rest _ Hs eq_refl) as (p' & Hn & Hlen).
      cbn [length] in Hl, Hlen. assert (Hl' : length p' = S k) by lia.
      destruct (IH n p' Hn Hl') as (I1 & I2 & I3 & I4). cbn [follow]. rewrite Hs.
      split; [|split; [|split]].
      + cbn [length]. rewrite I1. reflexivity.
      + destruct (follow k n) as [|x xs] eqn:F; [cbn in I1; lia|].
        change (last (s :: x :: xs) s) with (last (x :: xs) s). etransitivity; [apply (last_indep xs x s n)|exact I2].
      + reflexivity.
      + intros [|i] u Hu; cbn [nth_error] in Hu.
        * inversion Hu; subst. exists (u :: n :: rest). split; [exact Hs|cbn [length]; lia].
        * destruct (I4 i u Hu) as (q & Hq & Hlq). exists q. split; [exact Hq|lia].
  Qed.

  Corollary follow_nodup k s p : sp s = Some p -> length p = S k -> NoDup (follow k s).
  Proof.
    intros Hs Hl. destruct (follow_delivers k s p Hs Hl) as (_ & _ & _ & H4).
    apply NoDup_nth_error. intros i j Hi Hij.
    destruct (nth_error (follow k s) i) as [u|] eqn:Ei; [|apply nth_error_None in Ei; lia].
    symmetry in Hij. destruct (H4 i u Ei) as (q1 & Q1 & L1). destruct (H4 j u Hij) as (q2 & Q2 & L2).
    assert (j < length (follow k s))%nat by (apply nth_error_Some; congruence).
    destruct (follow_delivers k s p Hs Hl) as (Hlen & _). rewrite Q1 in Q2. inversion Q2; subst. lia.
  Qed.
  Lemma follow_head f u : exists tl, follow f u = u :: tl.
  Proof. destruct f; cbn [follow]; [eauto|]. destruct (sp u) as [[|? [|? ?]]|]; eauto. Qed.

  (* consecutive visited nodes are joined by edges *)
  Lemma follow_walk : forall f u, is_walk (follow f u).
  Proof.
    induction f as [|f IH]; intros u; cbn [follow]; [exact I|].
    destruct (sp u) as [[|a [|b rest]]|] eqn:E; try exact I.
    destruct (follow_head f b) as (tl & Ef). pose proof (IH b) as Hw. rewrite Ef in *. cbn [is_walk]. split; [|exact Hw].
    pose proof (sp_path _ _ E) as Hp. destruct (path_head _ _ Hp) as (r' & Er). inversion Er; subst a r'.
    destruct Hp as (Hw' & _). cbn [is_walk] in Hw'. tauto.
  Qed.
End NextHop.
