#!/bin/sh
# run_all.sh [tier] : every claimed check, 4 at a time; prints one line per property
tier=${1:-quick}
cd /verif
ids=$(python3 -c "import json;print(' '.join(c['property_id'] for c in json.load(open('MANIFEST.json'))['checks']))")
echo $ids | tr ' ' '\n' | xargs -P 4 -I{} sh -c "./check {} --tier $tier > /tmp/all_{}.log 2>&1; echo \"{} rc=\$? \$(grep -c VIOLATION /tmp/all_{}.log) violation line(s) \$(python3 -c \"import json;e=json.load(open('evidence/{}.json'));print(e['coverage'].get('evaluations'),e['coverage'].get('distinct_nontrivial'),e['wall_s'])\")\""
