#!/bin/sh
# usage: run_seed.sh Cxx <dir with patch.diff> [tier] -- apply a seeded change to /repo, run the check, undo it.
id=$1; d=$2; tier=${3:-quick}
cd /verif
[ -z "$(git -C /repo status --short)" ] || { echo "/repo not clean"; exit 2; }
git -C /repo apply $d/patch.diff || exit 2
cp evidence/$id.json /tmp/seeds/evidence_$id.saved 2>/dev/null
./check $id --tier $tier > /tmp/seeds/run_$id.$(basename $d).log 2>&1; rc=$?
git -C /repo checkout -q -- . ; git -C /repo clean -fdq -e '*.pyc' >/dev/null
cp /tmp/seeds/evidence_$id.saved evidence/$id.json 2>/dev/null
echo "$id $(basename $d): check rc=$rc :: $(grep -m2 'VIOLATION\|^  ' /tmp/seeds/run_$id.$(basename $d).log | tr '\n' ' ' | cut -c1-400)"
