#!/bin/sh
# thorough_here.sh : build this copy of /verif (wherever it is: a `vp run` snapshot, say) and run the thorough tier of
# every claimed check, four at a time, against /repo; prints one line per property and ALLDONE.
here=$(cd "$(dirname "$0")/.." && pwd)
cd "$here" || exit 2
export PYTHONPATH=/repo:$here PYTHONHASHSEED=0 PULP_PLATFORM_FLOONOC_VERIF=1 PYTHONDONTWRITEBYTECODE=1
/venv/bin/python -m harness.genfacts && (cd coq && coq_makefile -f _CoqProject -o Makefile >/dev/null 2>&1 && make -j16 > "$here/build.log" 2>&1) && make -C ocaml >> "$here/build.log" 2>&1 || { echo "BUILD FAILED"; tail -20 "$here/build.log"; exit 2; }
mkdir -p replays
ids=$(python3 -c "import json;print(' '.join(c['property_id'] for c in json.load(open('MANIFEST.json'))['checks']))")
echo $ids | tr ' ' '\n' | xargs -P 4 -I{} sh -c "./check {} --tier thorough > thorough_{}.log 2>&1; echo \"{} rc=\$? \$(grep -c VIOLATION thorough_{}.log) violation line(s) \$(date +%H:%M)\""
echo ALLDONE
