#!/usr/bin/env python3
"""keep_seed.py Cxx mutN [caught_by ...] -- archive a confirmed seeded change under /verif/seeded/<Cxx>-<mutN>/"""
import json, os, shutil, sys, glob
pid, mut = sys.argv[1], sys.argv[2]
src = f"/tmp/seeds/{pid}/{mut}"
dst = f"/verif/seeded/{pid}-{mut}"
os.makedirs(dst, exist_ok=True)
for f in os.listdir(src):
    p = os.path.join(src, f)
    if os.path.isfile(p) and os.path.getsize(p) < 300000 and not f.endswith(".pyc"):
        shutil.copy(p, dst)
meta = json.load(open(os.path.join(src, "meta.json")))
meta["property"] = pid
conf = {}
for k in ("clean", "mut", "tests"):
    p = f"/tmp/seeds/{pid}/{mut}.{k}.log"
    if os.path.exists(p):
        conf[k] = open(p).read()[-600:]
meta["confirmed_by_me"] = {
    "what_i_ran": [f"tools/confirm_seed.sh {pid} {mut}  (scratch worktree /tmp/wt<round>/{pid}: demo on clean tree, git apply patch.diff, "
                   "pytest (46 tests), demo with patch, checkout)",
                   f"tools/run_seed.sh <check id> seeded/{pid}-{mut}  (git -C /repo apply; ./check; git -C /repo checkout -- .)"],
    "demo_on_clean_tree_tail": conf.get("clean", ""), "demo_with_patch_tail": conf.get("mut", ""),
    "tests_with_patch": conf.get("tests", "")}
runs = {}
for p in glob.glob(f"/tmp/seeds/run_*.{mut}.log"):
    pass
meta["check_results"] = sys.argv[3:]
json.dump(meta, open(os.path.join(dst, "meta.json"), "w"), indent=1)
print("kept", dst)
