#!/bin/sh
# seed_regress.sh [workers] : run every kept seeded change against the quick tier of the property it targets, in
# parallel, WITHOUT touching /repo or /verif: each worker gets a copy of /verif (/tmp/vc<k>) and its own scratch
# worktree of /repo (/tmp/sw<k>); the copies run the checks with FLOONOC_REPO pointing at the patched worktree.
# Prints one line per seed; removes the copies and worktrees at the end.
W=${1:-5}
cd /verif
ls -d seeded/*/ | sed 's#/$##' > /tmp/seed_list.txt
k=0
while [ $k -lt $W ]; do
  rm -rf /tmp/vc$k; rsync -a --exclude .git --exclude replays /verif/ /tmp/vc$k/; mkdir -p /tmp/vc$k/replays
  git -C /repo worktree remove --force /tmp/sw$k 2>/dev/null; rm -rf /tmp/sw$k
  git -C /repo worktree add -q --detach /tmp/sw$k HEAD
  k=$((k+1))
done
worker() {
  k=$1
  awk -v k=$k -v w=$W 'NR % w == k' /tmp/seed_list.txt | while read d; do
    s=$(basename $d); id=${s%%-*}
    git -C /tmp/sw$k checkout -q -- . ; git -C /tmp/sw$k clean -fdq
    if ! git -C /tmp/sw$k apply /verif/$d/patch.diff 2>/dev/null; then echo "$s NOAPPLY"; continue; fi
    ( cd /tmp/vc$k && FLOONOC_REPO=/tmp/sw$k PYTHONPATH=/tmp/sw$k:/tmp/vc$k PYTHONHASHSEED=0 PULP_PLATFORM_FLOONOC_VERIF=1 \
        PYTHONDONTWRITEBYTECODE=1 /venv/bin/python -m harness.main $id > /tmp/vc$k/run_$s.log 2>&1; echo $? > /tmp/vc$k/rc_$s )
    rc=$(cat /tmp/vc$k/rc_$s)
    echo "$s rc=$rc $(grep -m1 -A1 VIOLATION /tmp/vc$k/run_$s.log | tr '\n' ' ' | sed 's#replay=[^ ]*##' | cut -c1-220)"
  done
}
k=0
while [ $k -lt $W ]; do worker $k & k=$((k+1)); done
wait
k=0
while [ $k -lt $W ]; do git -C /repo worktree remove --force /tmp/sw$k 2>/dev/null; rm -rf /tmp/vc$k /tmp/sw$k; k=$((k+1)); done
git -C /repo worktree prune
