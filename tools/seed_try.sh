#!/bin/sh
# seed_try.sh <Cxx> <dir with patch.diff> [slot] : run the quick tier of one property against one seeded change in a
# scratch copy of /verif and a scratch worktree of /repo (neither /repo nor /verif is touched); prints one line.
id=$1; d=$2; k=${3:-t}
rm -rf /tmp/vt$k; rsync -a --exclude .git --exclude replays /verif/ /tmp/vt$k/; mkdir -p /tmp/vt$k/replays
git -C /repo worktree remove --force /tmp/st$k 2>/dev/null; rm -rf /tmp/st$k
git -C /repo worktree add -q --detach /tmp/st$k HEAD
if git -C /tmp/st$k apply $d/patch.diff 2>/dev/null; then
  ( cd /tmp/vt$k && FLOONOC_REPO=/tmp/st$k PYTHONPATH=/tmp/st$k:/tmp/vt$k PYTHONHASHSEED=0 PULP_PLATFORM_FLOONOC_VERIF=1 \
      PYTHONDONTWRITEBYTECODE=1 /venv/bin/python -m harness.main $id > /tmp/seed_try_$id.$k.log 2>&1; echo $? > /tmp/vt$k/rc )
  echo "$id $(basename $d) rc=$(cat /tmp/vt$k/rc) $(grep -m1 -A1 VIOLATION /tmp/seed_try_$id.$k.log | tr '\n' ' ' | sed 's#replay=[^ ]*##' | cut -c1-260)"
else
  echo "$id $(basename $d) NOAPPLY"
fi
git -C /repo worktree remove --force /tmp/st$k 2>/dev/null; rm -rf /tmp/vt$k /tmp/st$k; git -C /repo worktree prune
