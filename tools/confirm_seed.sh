#!/bin/sh
# usage: confirm_seed.sh Cxx mutN [worktree-root]  -- confirm a sub-agent's seeded change in its scratch
# worktree: tests pass with it, demo fails with it, demo passes without it.  Prints a one-line verdict.
id=$1; mut=$2; root=${3:-/tmp/wt3}; wt=$root/$id; d=/tmp/seeds/$id/$mut
[ -d $wt ] || git -C /repo worktree add -q --detach $wt HEAD
git -C $wt checkout -q -- . ; git -C $wt clean -fdq
/venv/bin/python $d/demo.py $wt >/tmp/seeds/$id/$mut.clean.log 2>&1; rc_clean=$?
git -C $wt apply $d/patch.diff || { echo "$id/$mut: PATCH DOES NOT APPLY"; exit 1; }
(cd $wt && PYTHONPATH=$wt /venv/bin/python -m pytest -q -p no:cacheprovider 2>&1 | tail -1) > /tmp/seeds/$id/$mut.tests.log
/venv/bin/python $d/demo.py $wt >/tmp/seeds/$id/$mut.mut.log 2>&1; rc_mut=$?
git -C $wt checkout -q -- . ; git -C $wt clean -fdq
echo "$id/$mut: demo clean rc=$rc_clean, with patch rc=$rc_mut, tests: $(cat /tmp/seeds/$id/$mut.tests.log)"
