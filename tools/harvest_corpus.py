#!/usr/bin/env python3
"""harvest_corpus.py: copy the failing descriptions of the replay files (minimised failing inputs of
earlier findings and of the seeded changes) into corpus/netlist/, deduplicated by canonical text.
Run by hand after a finding; the corpus is committed and runs first in every netlist check."""
import glob, hashlib, json, os, sys
ROOT = os.path.dirname(os.path.dirname(os.path.abspath(__file__)))
out = os.path.join(ROOT, "corpus", "netlist")
os.makedirs(out, exist_ok=True)
denied = json.load(open(os.path.join(ROOT, "corpus", "denied.json"))) if os.path.exists(os.path.join(ROOT, "corpus", "denied.json")) else {}
n = 0
for f in sorted(glob.glob(os.path.join(ROOT, "replays", "*.json"))):
    r = json.load(open(f))
    c = r.get("case")
    if r.get("kind") != "failing-input" or not isinstance(c, dict) or not isinstance(c.get("desc"), dict):
        continue
    if "routing" not in c["desc"] or "endpoints" not in c["desc"]:
        continue
    canon = json.dumps(c["desc"], sort_keys=True)
    h = hashlib.sha1(canon.encode()).hexdigest()[:12]
    p = os.path.join(out, h + ".json")
    if os.path.exists(p) or h in denied:
        continue
    json.dump({"origin": f"{r.get('property')} {r.get('key')}: {str(r.get('what'))[:200]}", "desc": c["desc"],
               "tags": c.get("tags") or {}}, open(p, "w"), indent=1, sort_keys=True)
    n += 1
print("added", n, "total", len(os.listdir(out)))
