#!/usr/bin/env python3
"""Regenerates /verif/MANIFEST.json from the table below (kept valid at all times)."""
import json
NETLIST_NOTE = ("Trusted: Coq kernel; extraction (ExtrOcamlBasic) + OCaml driver; the fail-closed SV reader and the family "
                "generators (python); Hw.v is a hand model of floo_route_select / floo_router (addr_decode matches start<=a<end; "
                "'{...} fills [N-1:0] left to right); networkx's shortest_path contract on inputs not explored.")
CLAIMS = {
 "C01": ("Theorem C01_checker_sound: the certified checker run on the REAL emitted package implies, for every address (unbounded Z), unique decode to the owner's identity and no match outside declared ranges; overlap-check theorem check_no_overlap_iff (all tables) covers rejection. Universal model theorem: see DESIGN 5.1.", "Coq proof + certified checker on real output + differential families", "DESIGN.md 5.1"),
 "C02": ("Theorem C02_checker_sound: chk_C02 = [] on the real netlist implies every request/response walk (Hw.walk, NoLoopback mask included) is delivered to its addressee without revisiting a router; evaluated on every explored description.", "Coq-certified checker (extracted) on real output; hardware-walk semantics in Coq", "DESIGN.md 5.2"),
 "C03": ("Theorem C03_checker_sound: every emitted route word, consumed LSB-first with clog2(NumOutputs) bits per router, reaches exactly its destination, is fully consumed and fits route_t.", "Coq-certified checker (extracted) on real output", "DESIGN.md 5.3"),
 "C05": ("Theorem C05_checker_sound: per router port all channels see the same neighbour or none; each declared link signal has one driver, one reader and the name of its two ends.", "Coq-certified checker (extracted) on real output", "DESIGN.md 5.5"),
 "C07": ("Theorem C07_checker_sound: identities pairwise distinct, enumeration names/values dense and as the description implies, widths sufficient, XY coordinates within range.", "Coq-certified checker (extracted) on real output", "DESIGN.md 5.7"),
 "C09": ("Partial. Proved for all graphs: Kahn checker soundness (cyclic_core_sound) and acyclic => no set of mutually waiting packets (acyclic_no_deadlock). Acyclicity of networkx's tie-breaking on all meshes is not provable here; it is decided per explored mesh/tree on the real routes by the certified checker.", "Coq proof (CDG theory) + certified acyclicity checker on real routes", "DESIGN.md 5.9"),
 "C13": ("Theorem C13_checker_sound: all count parameters equal the sizes of the tables they size; enum widths cover their members; sam_idx_e numbers Sam entries.", "Coq-certified checker (extracted) on real output", "DESIGN.md 5.13"),
 "C14": ("Theorem C14_checker_sound: routers traversed = BFS hop distance - 1 in the emitted topology for every communicating pair.", "Coq-certified checker (extracted) on real output", "DESIGN.md 5.14"),
 "C04": ("Theorem C04_checker_sound: frame equations on every connected router port and, for every ordered endpoint pair, the same outcome of the hardware's X-then-Y walk (turn ban, loop-back ban, fixed-width coordinate fields) on the emitted netlist as on the ideal grid the description denotes (requests by address-map destination, responses by requester identity).", "Coq-certified checker (extracted) on real output vs independent grid spec", "DESIGN.md 5.4"),
 "C06": ("Theorem C06_checker_sound: every described link (mesh four-neighbour, tree parent-child, connection pairings incl. contiguous multi grouping) is emitted in both directions on every physical network on the named ports, every emitted link is described, counts agree, each interface attaches to one router.", "Coq-certified checker (extracted) on real output vs described_links spec", "DESIGN.md 5.6"),
 "C08": ("Theorem C08_checker_sound: top-level ports, per-interface AXI bindings and role enables, enumeration-name/identity pairing and AXI configuration records equal what the description implies.", "Coq-certified comparison (extracted) on real output vs spec.axi_expect", "DESIGN.md 5.8"),
 "C10": ("Theorem C10_no_output_on_failure over the step order regenerated from cli.py by an ast translator: no step that can raise follows the first write, so a rejected description leaves no package/top file; rejection itself is established by defect injection (22 classes x every site) through the real pipeline and CLI.", "fault enumeration via real CLI + Coq theorem over translated cli.py", "DESIGN.md 5.10"),
 "C19": ("Theorem C19_holds over facts regenerated from util/gen_jobs.py and the real address maps of the six shipped mesh examples: every transfer of every traffic type / direction / tile / oracle draw / burst length <= MEM_SIZE lies inside one mapped rule; local and channel addresses start the named rules. Hand model of gen_mesh_traffic tied by job-by-job comparison with the real generator.", "Coq proof over regenerated facts + differential correspondence", "DESIGN.md 5.19"),
 "C11": ("Theorem C11_holds over facts regenerated every run (module headers of hw/, macros of typedef.svh, floo_pkg names, XYDirections, the instantiations / macro calls / floo_pkg names of really generated code for every template branch and shipped example, both mesh testbenches per shipped variant): modules/parameters/ports exist, directions compatible, inputs bound, macro arities, struct fields, algorithms, helper functions, compass numbering, testbench names.", "Coq theorem (vm_compute + lifting lemmas) over facts translated from the sources each run", "DESIGN.md 5.11"),
 "C12": ("Partial. Theorem C12_checker_sound: chk_C12 = [] on text facts of the real files implies no duplicate declaration per scope, every used identifier available (file / package / floo_pkg / macro-defined by expansion of typedef.svh), sized literals hold their value, address literals have the address width and ceil(aw/4) digits, route words the route width, identifier-field and enum values fit. Not proved: that the templates produce balanced text for every description (decided per output by the fail-closed reader and the balance run). Two known findings (exclusive end bounds equal to 2^width).", "Coq-certified checker (extracted) on text facts of real output", "DESIGN.md 5.12"),
 "C15": ("Partial. Theorems C15_modes_are_views / C15_mode_spec over cli.py as translated each run: in all 8 mode combinations the package/top text is the single value returned by render_package()/render_network() and the run emits exactly the expected views. Determinism across hash seeds, directories, in-process histories and key order has no proof content and is established differentially (labelled so in the evidence).", "Coq theorem over translated cli.py + differential testing (labelled)", "DESIGN.md 5.15"),
 "C20": ("Theorem C20_holds over facts regenerated every run (Bender.yml, floo_noc.core, repository tree, module definitions and instantiation edges of hw/, files and modules of real floogen runs of all shipped examples): every listed path exists or is a generated name of the target's example; the instantiation closure (checked closed, sound w.r.t. inductive Reach) is listed in both manifests.", "Coq theorem (vm_compute + closure soundness) over regenerated facts", "DESIGN.md 5.20"),
 "C16": ("Theorem C16_holds: for every overlap-free table over Z (no bound) trim succeeds, preserves decoding exactly, stays overlap-free, keeps sizes and leaves no touching same-port rules; model = code bit-exactly on exhaustive small tables + random (drift 0); certified checker chk_C16 on the real result.", "Coq proof (induction, lia) + exhaustive differential correspondence", "DESIGN.md 5.16"),
 "C17": ("Theorem C17_holds characterises constructor and re-indexing completely over Z; exhaustive-grid + random differential run ties the model to the pydantic class; any disagreement is a failing input.", "Coq proof (lia case analysis) + differential correspondence", "DESIGN.md 5.17"),
 "C18": ("Theorem C18_holds: range selection = cartesian product (first dimension outermost, inclusive asc/desc) for any node predicate and any rank, error iff a node is missing; index and tree-level selection; exhaustive differential run on arrays up to 5x5 / trees depth 3.", "Coq proof (induction) + exhaustive differential correspondence", "DESIGN.md 5.18"),
}
PENDING = {
}
man = {
 "version": 1,
 "setup_cmd": "cd /verif && PYTHONPATH=/repo:/verif /venv/bin/python -m harness.genfacts && cd coq && coq_makefile -f _CoqProject -o Makefile && make -j16 && make -C /verif/ocaml",
 "hooks": {"guard": "PULP_PLATFORM_FLOONOC_VERIF", "enable": "checks export PULP_PLATFORM_FLOONOC_VERIF=1; no hook was needed, so there are no guarded source commits (the fix: commits in /repo are unguarded repairs, listed in known_findings.json)",
           "baseline_off_cmd": "cd /repo && /venv/bin/python -m pytest -ra -q -p no:cacheprovider --timeout=900 --continue-on-collection-errors",
           "source_commits": [], "add_only": True},
 "engines": [{"name": "coq-model", "path": "coq/theories", "serves_properties": sorted(CLAIMS),
              "kind_free_text": "Coq 8.16.1 development (model of floogen stages, hardware walk semantics, certified checkers, theorems), extracted to ocaml/flooverif; python harness runs the real floogen from /repo, reads the emitted SystemVerilog back and feeds it to the extracted checkers"}],
 "checks": [], "not_applicable": [],
 "notes": "Every check: ./check <id> --tier quick|thorough; rebuilds the Coq development (make is incremental), recompiles coq/theories/Props/<id>.v to read Print Assumptions, then explores. known_findings.json lists fixed defects (nine fix: commits in /repo).",
}
for pid in sorted(CLAIMS):
    text, tech, ref = CLAIMS[pid]
    man["checks"].append({
        "property_id": pid, "quick_cmd": f"./check {pid} --tier quick", "thorough_cmd": f"./check {pid} --tier thorough",
        "evidence_file": f"/verif/evidence/{pid}.json", "replay_cmd_template": f"./check {pid} --replay {{path}}",
        "engine": "coq-model", "level_claimed": {"category": "proof", "text": text, "design_ref": ref},
        "level_note": NETLIST_NOTE if pid < "C16" else "Trusted: Coq kernel, extraction (ExtrOcamlBasic), OCaml driver, python harness; pydantic coercions exercised, not modelled.",
        "technique": tech})
for pid in sorted(PENDING):
    man["not_applicable"].append({"property_id": pid, "reason": PENDING[pid]})
json.dump(man, open("/verif/MANIFEST.json", "w"), indent=1)
print(len(man["checks"]), "claimed;", len(man["not_applicable"]), "pending")
