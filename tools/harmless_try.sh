#!/bin/sh
# harmless_try.sh <patch.diff> <slot> [Cxx ...] : run the quick tier of every (or the given) property against a
# property-PRESERVING change, in a scratch copy of /verif and a scratch worktree of /repo (neither /repo nor /verif is
# touched).  Prints one line per property that alarms and a summary line; any alarm here is a false alarm to look into.
p=$1; k=$2; shift 2
props=${*:-C01 C02 C03 C04 C05 C06 C07 C08 C09 C10 C11 C12 C13 C14 C15 C16 C17 C18 C19 C20}
rm -rf /tmp/vh$k; rsync -a --exclude .git --exclude replays /verif/ /tmp/vh$k/; mkdir -p /tmp/vh$k/replays
git -C /repo worktree remove --force /tmp/sh$k 2>/dev/null; rm -rf /tmp/sh$k
git -C /repo worktree add -q --detach /tmp/sh$k HEAD
if git -C /tmp/sh$k apply $p 2>/dev/null; then
  bad=0
  for id in $props; do
    ( cd /tmp/vh$k && FLOONOC_REPO=/tmp/sh$k PYTHONPATH=/tmp/sh$k:/tmp/vh$k PYTHONHASHSEED=0 PULP_PLATFORM_FLOONOC_VERIF=1 \
        PYTHONDONTWRITEBYTECODE=1 /venv/bin/python -m harness.main $id > /tmp/harmless_$k.$id.log 2>&1; echo $? > /tmp/vh$k/rc )
    rc=$(cat /tmp/vh$k/rc)
    if [ "$rc" != 0 ]; then bad=$((bad+1)); echo "ALARM $p $id rc=$rc $(grep -m1 -A1 VIOLATION /tmp/harmless_$k.$id.log | tr '\n' ' ' | sed 's#replay=[^ ]*##' | cut -c1-300)"; fi
  done
  echo "DONE $p alarms=$bad"
else
  echo "$p NOAPPLY"
fi
git -C /repo worktree remove --force /tmp/sh$k 2>/dev/null; rm -rf /tmp/vh$k /tmp/sh$k; git -C /repo worktree prune
