#!/bin/sh
# multi_seed.sh seed... : the quick tier of every check on the UNCHANGED tree under other seeds, each seed in its own
# scratch copy of /verif (so /verif's evidence is left alone); prints the checks that did not exit 0.
for sd in "$@"; do
  ( rm -rf /tmp/vm$sd; rsync -a --exclude .git --exclude replays /verif/ /tmp/vm$sd/; mkdir -p /tmp/vm$sd/replays
    cd /tmp/vm$sd
    for i in 01 02 03 04 05 06 07 08 09 10 11 12 13 14 15 16 17 18 19 20; do
      VERIF_SEED=$sd PYTHONPATH=/repo:/tmp/vm$sd PYTHONHASHSEED=0 PULP_PLATFORM_FLOONOC_VERIF=1 PYTHONDONTWRITEBYTECODE=1 \
        /venv/bin/python -m harness.main C$i > /tmp/vm$sd/run_C$i.log 2>&1; rc=$?
      [ $rc -eq 0 ] || echo "seed $sd C$i rc=$rc $(grep -m1 -A1 VIOLATION /tmp/vm$sd/run_C$i.log | tr '\n' ' ' | cut -c1-300)"
    done
    echo "seed $sd done"; cp /tmp/vm$sd/run_C*.log /tmp/ 2>/dev/null; rm -rf /tmp/vm$sd ) &
done
wait
